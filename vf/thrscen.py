"""Thread-interleaving scenarios (the schedule dimension of C07, C08, C09, C12, C13).

skepticoin runs two threads over shared objects: the networking thread (`NetworkingThread.run` -> `LocalPeer.step`
-> message handlers) and the thread that owns the miner watcher / the interactive scripts.  They share the
`ChainManager` (chain state, pending pool, guarded by `ChainManager.lock`), the `BlockStore` write buffer (guarded by
`BlockStore.lock`) and every `Serializable`.  Each scenario below is a 2-3 thread harness over those real objects whose
every schedule with at most `bound` preemptions is executed by `vf.threads.explore`; scheduling points are the source
lines of the modules named in the scenario's trace table.
"""
import contextlib
import io
import os
import shutil

from . import enc, ledger, refmodel, seams, threads, world
from .world import K

_W = {}


def _quiet():
    return contextlib.redirect_stdout(io.StringIO())


def install_locks():
    """every lock the library creates from now on is scheduler-visible: in every loaded skepticoin module the name
    `threading` is bound to a shim whose Lock/RLock are scheduler-aware, and directly imported Lock/RLock names are
    replaced likewise"""
    import sys
    import threading as real
    from skepticoin import blockstore, mining  # noqa: F401
    from skepticoin.networking import local_peer  # noqa: F401  (import order: breaks the package's import cycle)
    from skepticoin.networking import manager  # noqa: F401
    for name, mod in list(sys.modules.items()):
        if not name.startswith('skepticoin') or mod is None:
            continue
        d = getattr(mod, '__dict__', {})
        if d.get('threading') is real:
            seams.rebind(mod, 'threading', threads.shim)
        if d.get('Lock') is real.Lock:
            seams.rebind(mod, 'Lock', threads.VLock)
        if d.get('RLock') is real.RLock:
            seams.rebind(mod, 'RLock', threads.VRLock)


# =====================================================================================  C08: two writers, one store

C08_PLANS = {
    # per thread: list of operations on the shared store (the blocks of different threads are siblings or independent,
    # so that every interleaving is a parents-first write order)
    'two-writers': [[('save', ('f',)), ('flush',)], [('save', ('e',)), ('flush',)]],
    'writer-with-two-flushes': [[('save', ('f',)), ('flush',), ('save', ('f', 's')), ('flush',)], [('save', ('e',)), ('flush',)]],
    'two-blocks-one-flush': [[('save', ('f',)), ('save', ('f', 's')), ('flush',)], [('save', ('e',)), ('flush',)]],
    'writer-writer-flusher': [[('save', ('f',)), ('flush',)], [('save', ('e',)), ('flush',)], [('flush',)]],
}


def c08_world():
    if 'c08' in _W:
        return _W['c08']
    from skepticoin import blockstore
    ledger.setup()
    install_locks()
    uni = ledger.tx_universe('genesis', mined=False)
    tpl = os.path.join(os.getcwd(), 'thr-c08-template-%d.db' % os.getpid())
    if os.path.exists(tpl):
        os.remove(tpl)
    with _quiet():
        st = blockstore.BlockStore(tpl)
    st.close()
    seams.rebind(blockstore.DefaultBlockStore, 'instance', blockstore.DefaultBlockStore.instance)
    from skepticoin.networking import disk_interface
    _W['c08'] = dict(uni=uni, tpl=tpl, trace=threads.files(blockstore, disk_interface))
    return _W['c08']


def c08_make(name):
    from skepticoin import blockstore
    from skepticoin.networking.disk_interface import DiskInterface
    W = c08_world()
    path = W['tpl'] + '.run'
    shutil.copyfile(W['tpl'], path)
    with _quiet():
        st = blockstore.BlockStore(path)
    if not isinstance(st.lock, threads.VLock):
        raise seams.HarnessError("BlockStore.lock is not scheduler-visible")
    blockstore.DefaultBlockStore.instance = st
    di = DiskInterface()
    uni = W['uni']

    def body(ops):
        def run():
            for op in ops:
                if op[0] == 'save':
                    di.save_block(uni.get(op[1]).block)
                else:
                    di.flush_blocks()
        return run
    plan = C08_PLANS[name]
    return [body(ops) for ops in plan], dict(st=st, path=path, plan=plan, uni=uni)


def c08_check(x, cx, bad):
    from skepticoin import blockstore
    uni = cx['uni']
    for i, o in enumerate(x.outcome):
        if o is not None and o[0] == 'exc':
            bad.append(('thread-raises', "thread %d raises %r" % (i, o[1])))
    if x.deadlock:
        bad.append(('deadlock', "the writers deadlock"))
    try:
        cx['st'].close()
    except Exception:
        pass
    if bad:
        return None
    want = {uni.root.bid: uni.root}
    for ops in cx['plan']:
        for op in ops:
            if op[0] == 'save':
                n = uni.get(op[1])
                want[n.bid] = n
    with _quiet():
        st = blockstore.BlockStore(cx['path'])
        try:
            got = list(st.read_blocks_from_disk())
        except Exception as e:
            bad.append(('read-raises', "reading the store back raises %r" % (e,)))
            st.close()
            return None
        st.close()
    ids = [b.hash() for b in got]
    lost = [want[i].path for i in want if i not in ids]
    if lost:
        bad.append(('saved-and-flushed-block-missing', "block %s was saved and its thread's flush returned, but it is not "
                    "in the store" % ('/'.join(lost[0]),)))
    if len(ids) != len(set(ids)) or any(i not in want for i in ids):
        bad.append(('block-set-differs', "the store returns %d blocks for %d written" % (len(ids), len(want))))
    for b in got:
        n = want.get(b.hash())
        if n is not None and b.serialize() != n.ser:
            bad.append(('block-differs', "block %s read back differs from what was written" % ('/'.join(n.path),)))
    for k, b in enumerate(got):
        if b.previous_block_hash != b'\x00' * 32 and b.previous_block_hash not in ids[:k]:
            bad.append(('child-before-parent', "a block is returned before its parent"))
    import sqlite3
    con = sqlite3.connect(cx['path'])
    order = tuple(uni_path(want, r[0]) for r in con.execute("select block_hash from chain order by rowid"))
    con.close()
    return order


def uni_path(want, bid):
    n = want.get(bid)
    return '/'.join(n.path) if n is not None else bid.hex()[:8]


# =====================================================================================  C13: admission vs head change

def c13_world():
    if 'c13' in _W:
        return _W['c13']
    from .props import c09
    install_locks()
    from skepticoin.networking import manager
    W9 = c09.setup_worker()
    _W['c13'] = dict(W9=W9, trace=threads.files(manager))
    return _W['c13']


C13_PLANS = {
    # (initial pool labels, [thread ops]); ops: ('add', tx label) | ('head', block path suffix on the base head) | ('observe',)
    'admit-vs-spending-head': (['a'], [[('add', 'c')], [('head', 'd')]]),
    'admit-vs-unrelated-head': (['a'], [[('add', 'c')], [('head', 'e')]]),
    'admit-vs-spending-head-observed': (['a'], [[('add', 'c')], [('head', 'd')], [('observe',)]]),
    'conflicting-admissions': ([], [[('add', 'a')], [('add', 'b')]]),
    'conflicting-admissions-observed': ([], [[('add', 'a')], [('add', 'b')], [('observe',)]]),
    'admit-two-vs-head-spending-one': ([], [[('add', 'a'), ('add', 'c')], [('head', 'b')]]),
}


def c13_make(name):
    from .props import c09
    W = c13_world()
    w = c09.World()
    cm = w.node.cm
    if not isinstance(cm.lock, threads.VLock):
        raise seams.HarnessError("ChainManager.lock is not scheduler-visible")
    uni = w.uni
    head = W['W9']['base_nodes'][-1]
    pool0, plan = C13_PLANS[name]
    txs = {lab: ledger.tx_payload(head, lab)[0][0] for lab in ('a', 'b', 'c')}
    cm.transaction_pool[:] = []
    for lab in pool0:
        if not cm.add_transaction_to_pool(txs[lab]):
            raise seams.HarnessError("initial pending transaction refused")
    seen = []
    rets = []

    def body(ops):
        def run():
            for op in ops:
                if op[0] == 'add':
                    rets.append((op[1], cm.add_transaction_to_pool(txs[op[1]])))
                elif op[0] == 'head':
                    n = uni.get(head.path + (op[1],))
                    # what both the relay path and the miner do: extend the state they read, then publish it
                    cm.set_coinstate(cm.coinstate.add_block_no_validation(n.block))
                else:
                    cs, pool = cm.get_state()
                    seen.append((cs.current_chain_hash, [enc.txid(t) for t in pool], list(pool)))
        return run
    return [body(ops) for ops in plan], dict(w=w, cm=cm, uni=uni, head=head, seen=seen, txs=txs, rets=rets)


def _pool_problems(uni, head_id, pool, what):
    out = []
    node = None
    for n in uni.nodes.values():
        if n.bid == head_id:
            node = n
            break
    if node is None:
        return [('head-unknown', "%s: head is not a block of the scenario" % what)]
    spent = set()
    for t in pool:
        tags = refmodel.validate_tx(t, node.utxo)
        if tags:
            out.append(('pending-invalid-at-head', "%s: a pending transaction is not valid at the head %s (%s)" % (
                what, '/'.join(node.path), ', '.join(sorted(tags)))))
        for i in t.inputs:
            r = refmodel.refkey(i.output_reference)
            if r in spent:
                out.append(('pending-conflict', "%s: two pending transactions spend the same output" % what))
            spent.add(r)
    return out


def c13_check(x, cx, bad):
    for i, o in enumerate(x.outcome):
        if o is not None and o[0] == 'exc':
            bad.append(('thread-raises', "thread %d raises %r" % (i, o[1])))
    if x.deadlock:
        bad.append(('deadlock', "deadlock on the chain manager's lock"))
    cm = cx['cm']
    bad.extend(_pool_problems(cx['uni'], cm.coinstate.current_chain_hash, list(cm.transaction_pool), "after all threads finished"))
    for hid, ids, pool in cx['seen']:
        bad.extend(_pool_problems(cx['uni'], hid, pool, "state handed to an observer"))
    # still-valid transactions must not have been dropped
    node = [n for n in cx['uni'].nodes.values() if n.bid == cm.coinstate.current_chain_hash]
    if node and not bad:
        offered = [t for t in cx['txs'].values()]
        pool_ids = {enc.txid(t) for t in cm.transaction_pool}
        valid_now = [t for t in offered if not refmodel.validate_tx(t, node[0].utxo)]
        # an offered, still-valid transaction may be absent only if it conflicts with a pooled one or was never offered
        plan_adds = {op[1] for ops in C13_PLANS[cx['name']][1] for op in ops if op[0] == 'add'} | set(C13_PLANS[cx['name']][0])
        for lab, t in cx['txs'].items():
            if lab in plan_adds and t in valid_now and enc.txid(t) not in pool_ids:
                ins = {refmodel.refkey(i.output_reference) for i in t.inputs}
                if not any(ins & {refmodel.refkey(i.output_reference) for i in p.inputs} for p in cm.transaction_pool):
                    bad.append(('valid-pending-dropped', "transaction %r is valid at the final head and conflicts with "
                                "nothing pending, but is not in the pool" % lab))
    cx['w'].close()
    return (cm.coinstate.current_chain_hash, tuple(enc.txid(t) for t in cm.transaction_pool), tuple(cx['rets']),
            tuple((h, tuple(i)) for h, i, _ in cx['seen']))


# =====================================================================================  C07: ids / encodings under threads

C07_PLANS = {
    'tx-id-vs-tx-encode': [('txid', 'a'), ('txser', 'c')],
    'tx-id-vs-tx-id': [('txid', 'a'), ('txid', 'b')],
    'block-id-vs-message-encode': [('blockid', ('f', 's')), ('msg', 'a')],
    'block-encode-vs-tx-id': [('blockser', ('f', 's')), ('txid', 'c')],
    'message-vs-message': [('msg', 'a'), ('msgblock', ('f',))],
}


def c07_world():
    if 'c07' in _W:
        return _W['c07']
    from skepticoin import datatypes, serialization, signing
    from skepticoin.networking import messages
    ledger.setup()
    uni = ledger.tx_universe('genesis', mined=False)
    head = uni.get(('f', 's'))
    _W['c07'] = dict(uni=uni, head=head, trace=threads.files(datatypes, serialization, signing, messages))
    return _W['c07']


def _fresh_tx(t):
    """the same value built in memory (no id cached from bytes)"""
    from skepticoin.datatypes import Input, Output, OutputReference, Transaction
    return Transaction([Input(OutputReference(i.output_reference.hash, i.output_reference.index), i.signature) for i in t.inputs],
                       [Output(o.value, o.public_key) for o in t.outputs])


def _fresh_block(b):
    from skepticoin.datatypes import Block, BlockHeader, BlockSummary, PowEvidence
    s = b.header.summary
    e = b.header.pow_evidence
    return Block(BlockHeader(BlockSummary(s.height, s.previous_block_hash, s.merkle_root_hash, s.timestamp, s.target, s.nonce),
                             PowEvidence(e.summary_hash, e.chain_sample, e.block_hash)),
                 [_fresh_tx(t) for t in b.transactions])


def c07_make(name):
    from skepticoin.networking.messages import DATA_BLOCK, DATA_TRANSACTION, DataMessage, MessageHeader
    W = c07_world()
    uni, head = W['uni'], W['head']
    res = {}
    exp = {}

    def mk(i, op):
        kind, arg = op
        if kind in ('txid', 'txser', 'msg'):
            ref = ledger.tx_payload(head, arg)[0][0]
            t = _fresh_tx(ref)
            if kind == 'txid':
                exp[i] = enc.txid(ref)
                return lambda: res.__setitem__(i, t.hash())
            if kind == 'txser':
                exp[i] = enc.enc_tx(ref)
                return lambda: res.__setitem__(i, t.serialize())
            m = DataMessage(DATA_TRANSACTION, t)
            h = MessageHeader(1700000000, 7 + i, 0, 4242)
            exp[i] = ('msg', enc.enc_tx(ref), 7 + i)

            def run():
                data = h.serialize() + m.serialize()      # what send_message puts on the wire
                res[i] = data
            return run
        n = uni.get(arg)
        b = _fresh_block(n.block)
        if kind == 'blockid':
            exp[i] = n.bid
            return lambda: res.__setitem__(i, b.hash())
        if kind == 'blockser':
            exp[i] = n.ser
            return lambda: res.__setitem__(i, b.serialize())
        m = DataMessage(DATA_BLOCK, b)
        h = MessageHeader(1700000000, 7 + i, 0, 4242)
        exp[i] = ('msg', n.ser, 7 + i)

        def run():
            res[i] = h.serialize() + m.serialize()
        return run
    plan = C07_PLANS[name]
    return [mk(i, op) for i, op in enumerate(plan)], dict(res=res, exp=exp, plan=plan)


def c07_check(x, cx, bad):
    from skepticoin.networking.messages import Message, MessageHeader
    for i, o in enumerate(x.outcome):
        if o is not None and o[0] == 'exc':
            bad.append(('thread-raises', "thread %d (%s) raises %r" % (i, cx['plan'][i][0], o[1])))
    if bad:
        return None
    for i, op in enumerate(cx['plan']):
        got, want = cx['res'].get(i), cx['exp'][i]
        if isinstance(want, tuple):
            # decode the wire bytes with the implementation: the message must survive encode-then-decode
            try:
                f = io.BytesIO(got)
                hh = MessageHeader.stream_deserialize(f)
                mm = Message.stream_deserialize(f)
                ok = hh.id == want[2] and mm.data.serialize() == want[1] and f.read() == b''
            except Exception:
                ok = False
            if not ok:
                bad.append(('message-corrupted-under-threads', "thread %d: the bytes produced for a %s message do not decode to "
                            "the message that was sent" % (i, op[0])))
        elif got != want:
            bad.append(('id-or-encoding-differs-under-threads', "thread %d: %s of a value built in memory is not the %s of its "
                        "canonical encoding" % (i, op[0], 'double SHA-256' if 'id' in op[0] else 'bytes')))
    return tuple(sorted((i, enc.sha256d(v if isinstance(v, bytes) else repr(v).encode())[:4]) for i, v in cx['res'].items()))


# =====================================================================================  miner thread x networking thread

MN_PLANS = {
    # what the networking thread handles while the miner's found-block handler runs
    'found-vs-valid-sibling-delivery': 'valid-sibling',
    'found-vs-invalid-delivery': 'invalid',
    'found-vs-transaction-delivery': 'tx',
    # ... and while the main thread of skepticoin-send broadcasts a transaction (NetworkManager.broadcast_transaction)
    'broadcast-vs-valid-block-delivery': 'valid-sibling',
    'broadcast-vs-transaction-delivery': 'tx',
    # ... and while the miner thread serves a work request (reads head + pool, assembles a candidate) and the block being
    # delivered contains the pending transaction
    'request-vs-block-including-pending-tx': 'valid-includes-pending',
    # ... and a transaction is delivered (admitted to the pool) while the work request is served
    'request-vs-transaction-delivery': 'tx',
}
WKEYS = [world.Key(0x6101 + i) for i in range(3)]


class _Q:
    def __init__(self):
        self.items = []

    def put(self, x):
        self.items.append(x)


def mn_world():
    if 'mn' in _W:
        return _W['mn']
    from .props import c09
    install_locks()
    from skepticoin import blockstore, mining
    from skepticoin.networking import disk_interface, manager, remote_peer
    W9 = c09.setup_worker()
    seams.deterministic_wallet_signing()
    seams.rebind(mining, 'time', W9['net'].clock)
    d = os.path.join(os.getcwd(), 'mn-%d' % os.getpid())     # save_wallet writes wallet.json into the cwd
    os.makedirs(d, exist_ok=True)
    os.chdir(d)
    from skepticoin.networking import local_peer
    trace = threads.files(mining, manager, blockstore, disk_interface, local_peer)
    # the framing layer and the socket plumbing belong to the networking thread alone: executed atomically
    trace[remote_peer.__file__] = ('line', frozenset(['receive', 'handle_message_data', 'handle_receive_data', 'handle_can_send',
                                                      '_get_msg_id', '__init__']))
    # candidate assembly (called by the miner's work-request handler) reads the pending transactions more than once
    from skepticoin import consensus
    trace[consensus.__file__] = ('line-only', frozenset(['construct_block_pow_evidence_input', 'construct_coinbase_transaction']))
    _W['mn'] = dict(W9=W9, trace=trace, win={})
    return _W['mn']


def mn_world_coarse():
    """the same scenarios with scheduling points at function entries only on the networking side (every source line of the
    miner's handler, the block store and the disk interface): far fewer points, so one preemption more is affordable"""
    if 'mnc' in _W:
        return _W['mnc']
    W = mn_world()
    from skepticoin import blockstore, mining
    from skepticoin.networking import disk_interface, local_peer, manager, remote_peer
    trace = {mining.__file__: 'line', disk_interface.__file__: 'line',
             blockstore.__file__: ('line', frozenset(['write_blocks_to_disk'])),
             manager.__file__: 'call', local_peer.__file__: 'call',
             remote_peer.__file__: ('call', W['trace'][remote_peer.__file__][1])}
    from skepticoin import consensus
    trace[consensus.__file__] = W['trace'][consensus.__file__]
    _W['mnc'] = dict(trace=trace)
    return _W['mnc']


def mn_make(name, invalid=None):
    """invalid: name of the C01 candidate block to deliver in an 'invalid' plan (default: signed by a foreign key)"""
    from .props import c09
    from . import cands
    from skepticoin import consensus, mining
    from skepticoin.datatypes import Block, BlockHeader
    from skepticoin.networking.messages import DATA_BLOCK, DATA_TRANSACTION, DataMessage
    from skepticoin.wallet import Wallet
    import datetime
    from decimal import Decimal
    W = mn_world()
    w = c09.World()
    node = w.node
    uni = w.uni
    H = W['W9']['base_nodes'][-1]
    now = H.ts + 3000
    w.net.clock.t = now
    if not isinstance(node.cm.lock, threads.VLock) or not isinstance(w.store.lock, threads.VLock):
        raise seams.HarnessError("locks are not scheduler-visible")
    mw = mining.MinerWatcher.__new__(mining.MinerWatcher)
    mw.wallet = Wallet({k.pub: k.priv for k in WKEYS}, [k.pub for k in WKEYS], {})
    mw.coinstate = node.cm.coinstate
    mw.mining_args = {}
    mw.hash_stats = {}
    mw.send_queues = [_Q()]
    mw.log_silencer = []
    mw.balance = mw.start_balance = Decimal(0)
    mw.start_time = datetime.datetime(2020, 1, 1)

    class Args:
        quiet = True
    mw.args = Args()

    class NT:
        local_peer = node.lp
    mw.network_thread = NT()
    mw.public_key = mw.wallet.get_annotated_public_key("reserved for potentially mined block")
    # ---- the winning work request (searched once per process; the handlers are deterministic under the seams)
    found = None
    for nonce in ([W['win'][name]] if name in W['win'] else range(20000)):
        mw.handle_request_scrypt_input_message(0, nonce)
        kind, (summary, height) = mw.send_queues[0].items[-1]
        sh = consensus.construct_summary_hash(summary, height)
        s_, h_, txs_ = mw.mining_args[0]
        ev = consensus.construct_pow_evidence_after_scrypt(sh, mw.coinstate, s_, h_, txs_)
        blk = Block(BlockHeader(s_, ev), txs_)
        if blk.hash() < blk.target:
            found = (nonce, sh, blk)
            break
    if found is None:
        raise seams.HarnessError("no winning nonce")
    W['win'][name] = found[0]
    M = found[2]
    kind = MN_PLANS[name]
    B = None
    Bvalid = None
    T = None
    if kind == 'valid-includes-pending':
        n = uni.get(H.path + ('a',))          # (its transaction is the node's pending one)
        B, Bvalid = n.block, True
        data = w.D.frame(DataMessage(DATA_BLOCK, world.from_wire(B)))
    elif kind == 'valid-sibling':
        n = uni.get(H.path + ('e',))
        B, Bvalid = n.block, True
        data = w.D.frame(DataMessage(DATA_BLOCK, world.from_wire(B)))
    elif kind == 'invalid':
        if 'invalid' not in W:
            # the C01 alphabet of rule-breaking blocks on the head; default: passes the stand-alone checks and can be
            # applied, fails full validation (signature by a foreign key)
            W['invalid'] = {c.name: c.block for c in cands.c01_candidates(H, uni) if not c.control}
        B, Bvalid = W['invalid'][invalid or 'signed-by-foreign-key'], False
        data = w.D.frame(DataMessage(DATA_BLOCK, world.from_wire(B)))
    else:
        T = ledger.tx_payload(H, 'c')[0][0]
        data = w.D.frame(DataMessage(DATA_TRANSACTION, T))
    w.D.received()
    w.O.received()
    pool0 = [enc.txid(t) for t in node.cm.transaction_pool]
    w.D.send_raw(data, deliver=False)          # the bytes are on the wire; the networking thread will find them readable
    lp = node.lp
    S = None
    if name.startswith('broadcast-'):
        # the transaction the script broadcasts (valid at the head, independent of the pending one and of the delivered one)
        U = H.utxo
        o2 = [r for r in world.owned(U, K[2])]
        S = world.mk_tx([(world.oref(o2[0]), K[2])], [(U[o2[0]][0] - 11, K[1])])

    def networking_thread():
        # iterations of LocalPeer.run()'s loop body (the managers' timers are not part of this scenario)
        for _ in range(8):
            if not lp.selector.ready():
                break
            try:
                lp.handle_selector_events()
            except Exception as e:      # would end LocalPeer.run()
                w.net.escaped.append(('N', 'handle_selector_events', repr(e)[:200]))
                break
    first = (lambda: node.nm.broadcast_transaction(S)) if S is not None else (lambda: mw.handle_scrypt_output_message(0, found[1]))
    req = name.startswith('request-')
    if req:
        first = lambda: mw.handle_request_scrypt_input_message(0, found[0] + 1)      # noqa: E731
    return ([first, networking_thread],
            dict(w=w, mw=mw, M=(None if (S is not None or req) else M), S=S, B=B, Bvalid=Bvalid, T=T, H=H, pool0=pool0, now=now,
                 req=req))


def mn_check(x, cx, bad):
    w, M, B = cx['w'], cx['M'], cx['B']
    node = w.node
    for i, o in enumerate(x.outcome):
        if o is not None and o[0] == 'exc':
            if i == 0 and cx.get('req'):
                bad.append(('C12:request-handler-raises', "the miner's work-request handler raises %r while the networking thread "
                            "adopts a block containing the pending transaction" % (o[1],)))
                continue
            if i == 0 and cx.get('S') is not None:
                bad.append(('C10:broadcast-raises', "broadcast_transaction called from the main thread raises %r" % (o[1],)))
                continue
            bad.append(('C12:miner-handler-raises' if i == 0 else 'C09:net-thread-raises',
                        "%s raises %r" % ("the found-block handler" if i == 0 else "the networking thread", o[1])))
    if x.deadlock:
        bad.append(('C12:deadlock', "miner thread and networking thread deadlock"))
    if w.net.escaped:
        bad.append(('C09:exception-escaped', "node handler: %s" % (w.net.escaped[0],)))
    if bad:
        w.close()
        return None
    # the networking thread keeps running: let it send whatever is queued and registered for writing
    for _ in range(8):
        if not node.lp.selector.ready():
            break
        node.lp.handle_selector_events()
    relays = {}
    txs_got = {}
    for nm, p in (('D', w.D), ('O', w.O)):
        for hh, m in p.received():
            if type(m).__name__ == 'DataMessage' and m.data_type == b'\x00\x00' and hh.in_response_to == 0:
                k = (nm, enc.blockid(m.data))
                relays[k] = relays.get(k, 0) + 1
            elif type(m).__name__ == 'DataMessage' and m.data_type == b'\x00\x02':
                k = (nm, enc.txid(m.data))
                txs_got[k] = txs_got.get(k, 0) + 1
    snap = w.snapshot()
    cs = node.cm.coinstate
    if cx.get('req'):
        # ---- C12: the candidate handed out is assembled from ONE moment's head and pending transactions
        try:
            s_, h_, txs_ = cx['mw'].mining_args[0]
            par = cx['H'] if s_.previous_block_hash == cx['H'].bid else None
            if par is None and B is not None and s_.previous_block_hash == enc.blockid(B):
                par = world.Node(B, cx['H'], path=cx['H'].path + ('a',))
            if par is not None:
                for t in txs_[1:]:
                    tg = refmodel.validate_tx(t, par.utxo)
                    if tg:
                        bad.append(('C12:candidate-inconsistent', "the candidate handed to the miner builds on %s and contains a "
                                    "transaction that is not valid there (%s)" % ('/'.join(par.path), ', '.join(sorted(tg)))))
                # ... and its reward pays exactly the subsidy plus the fees of the transactions it contains
                try:
                    fees = sum(sum(par.utxo[refmodel.refkey(i.output_reference)][0] for i in t.inputs) - sum(o.value for o in t.outputs)
                               for t in txs_[1:])
                    paid = sum(o.value for o in txs_[0].outputs)
                    if paid != refmodel.subsidy(par.height + 1) + fees:
                        bad.append(('C12:candidate-reward-not-exact', "the candidate handed to the miner contains %d pending transaction(s) "
                                    "paying fees of %d in all, its reward pays subsidy + %d" % (
                                        len(txs_) - 1, fees, paid - refmodel.subsidy(par.height + 1))))
                except KeyError:
                    pass
        except Exception as e:
            bad.append(('C12:candidate-inconsistent', "no candidate recorded for the request: %r" % (e,)))
    if cx.get('S') is not None:
        # ---- C10: a transaction broadcast by this node reaches its peers (once each)
        sid = enc.txid(cx['S'])
        for nm in ('D', 'O'):
            if txs_got.get((nm, sid), 0) != 1:
                bad.append(('C10:broadcast-transaction-count', "peer %s received the broadcast transaction %d times" % (
                    nm, txs_got.get((nm, sid), 0))))
    mid = enc.blockid(M) if M is not None else None
    # ---- C12: the found block is adopted
    if mid is None:
        pass
    elif mid not in snap['state_ids']:
        bad.append(('C12:found-block-lost-from-served-state', "after both threads finished the chain state served to peers "
                    "does not contain the block the miner found (head %s)" % enc.blockid(cs.head()).hex()[:8]))
    if mid is not None and mid not in snap['rows']:
        bad.append(('C12:found-block-not-stored', "the found block is not in the block store"))
    for nm in ('D', 'O'):
        if mid is not None and relays.get((nm, mid), 0) != 1:
            bad.append(('C12:found-block-broadcast-count', "peer %s received the found block %d times" % (nm, relays.get((nm, mid), 0))))
    # ---- C09: the delivered block
    if B is not None:
        bid = enc.blockid(B)
        if cx['Bvalid']:
            if bid in snap['state_ids'] and bid not in snap['rows']:
                bad.append(('C09:accepted-block-not-stored', "the delivered valid block is in chain state but not in the store"))
            if relays.get(('O', bid), 0) > 1 or relays.get(('D', bid), 0) > 1:
                bad.append(('C09:relayed-more-than-once', "the delivered block was relayed more than once to a peer"))
        else:
            if bid in snap['state_ids']:
                bad.append(('C09:rejected-block-in-state', "the delivered invalid block is in chain state"))
            if bid in snap['rows']:
                bad.append(('C09:rejected-block-in-store', "the delivered invalid block was written to the block store"))
            if relays.get(('O', bid), 0):
                bad.append(('C09:rejected-block-relayed', "the delivered invalid block was relayed"))
    if snap['buffer']:
        bad.append(('C09:write-buffer-not-empty', "blocks remain in the store's write buffer after both threads finished"))
    # ---- C13: the pool against the final head
    head_node = None
    if mid is not None and cs.current_chain_hash == mid:
        utxo = refmodel.apply_block(cx['H'].utxo, M)
    elif B is not None and cs.current_chain_hash == enc.blockid(B):
        utxo = refmodel.apply_block(cx['H'].utxo, B)
    elif cs.current_chain_hash == cx['H'].bid:
        utxo = cx['H'].utxo
    else:
        utxo = None
    if utxo is not None:
        for t in node.cm.transaction_pool:
            tags = refmodel.validate_tx(t, utxo)
            if tags:
                bad.append(('C13:pending-invalid-at-head', "a pending transaction is not valid at the final head (%s)" % ', '.join(sorted(tags))))
    w.close()
    return (snap['head'], snap['state_ids'], snap['rows'], snap['pool'], tuple(sorted(relays.items())), tuple(sorted(txs_got.items())))


# =====================================================================================  C17: commitments under threads

C17_PLANS = {
    # per thread: (operation, number of entries); the two threads work on different lists
    'root-2-vs-root-2': [('root', 2), ('root', 2)],
    'root-5-vs-root-4': [('root', 5), ('root', 4)],
    'root-3-vs-tree-and-proofs-4': [('root', 3), ('proofs', 4)],
    'tree-and-proofs-3-vs-tree-and-proofs-5': [('proofs', 3), ('proofs', 5)],
}


def c17_world():
    if 'c17' in _W:
        return _W['c17']
    from skepticoin import merkletree
    _W['c17'] = dict(trace=threads.files(merkletree))
    return _W['c17']


def c17_make(name):
    import hashlib
    from skepticoin import merkletree as MT
    plan = C17_PLANS[name]
    res = {}
    lists = []
    for i, (op, n) in enumerate(plan):
        lists.append([hashlib.sha256(b'vf-thr-%d-%d' % (i, j)).digest() for j in range(n)])

    def mk(i, op, lst):
        def leaves(node, out):
            if not node.children:
                out.append((node.index, node.value))
            for c in node.children or []:
                leaves(c, out)

        def run():
            if op == 'root':
                res[i] = ('root', MT.get_merkle_root(list(lst)))
            else:
                t = MT.get_merkle_tree(list(lst))
                proofs = []
                for pos in range(len(lst)):
                    p = MT.get_proof(t, pos)
                    lv = []
                    leaves(p, lv)
                    proofs.append((p.hash(), (pos, lst[pos]) in lv))
                res[i] = ('proofs', t.hash(), proofs)
        return run
    return [mk(i, op, lists[i]) for i, (op, n) in enumerate(plan)], dict(res=res, lists=lists, plan=plan)


def c17_check(x, cx, bad):
    for i, o in enumerate(x.outcome):
        if o is not None and o[0] == 'exc':
            bad.append(('thread-raises', "thread %d raises %r" % (i, o[1])))
    if bad:
        return None
    for i, (op, n) in enumerate(cx['plan']):
        want = enc.merkle_root(cx['lists'][i])
        got = cx['res'].get(i)
        if got is None:
            continue
        if got[1] != want:
            bad.append(('commitment-differs-under-threads', "thread %d: the commitment computed for its %d-entry list is not the "
                        "commitment of that list (another thread was computing one at the same time)" % (i, n)))
        elif op == 'proofs' and any(h != want or not ok for h, ok in got[2]):
            bad.append(('proof-wrong-under-threads', "thread %d: a proof from its tree does not reproduce the commitment / "
                        "contain the entry" % i))
    return tuple(sorted((i, v[1]) for i, v in cx['res'].items()))


# ---------------------------------------------------------------- C03: look-ups on one chain state from two threads

C03_PLANS = {
    # per thread: the blocks (depth on the chain f, f/s, f/s/a, f/s/a/e; 'side' = the sibling f/s/b) whose balances it asks for
    'deep-vs-shallow': [(3,), (1,)],
    'deep-vs-middle-then-shallow': [(4,), (2, 1)],
    'deep-vs-side-branch': [(3,), ('side',)],
    'same-block-twice': [(3,), (3,)],
}


def c03_world():
    if 'c03' in _W:
        return _W['c03']
    from skepticoin import balances, coinstate
    ledger.setup()
    uni = ledger.tx_universe('easy')
    # scheduling points: every line of the look-up methods themselves (the helpers that apply one block / one transaction to
    # the maps they are given run atomically: they own no state)
    _W['c03'] = dict(uni=uni, trace={balances.__file__: ('line-only', frozenset(['public_key_balances_by_hash', '__getitem__',
                                                                                  'chain_at_hash', '__init__']))})
    return _W['c03']


def c03_make(name):
    from skepticoin.coinstate import CoinState
    W = c03_world()
    uni = W['uni']
    plan = C03_PLANS[name]
    chain = [('f',), ('f', 's'), ('f', 's', 'a'), ('f', 's', 'a', 'e')]
    side = ('f', 's', 'b')
    nodes = [uni.get(p) for p in chain] + [uni.get(side)]
    if any(n is None for n in nodes):
        raise seams.HarnessError("C03 thread scenario: universe lacks a block")
    cs = CoinState.empty().add_block_no_validation(uni.root.block)
    for n in nodes:
        cs = cs.add_block_no_validation(n.block)       # fresh state: nothing looked up yet
    res = {}

    def mk(i, asks):
        def run():
            got = []
            for a in asks:
                n = nodes[-1] if a == 'side' else nodes[a - 1]
                bal = cs.public_key_balances_by_hash[n.bid]
                got.append((n, {pk.public_key: (b.value, frozenset((r.hash, r.index) for r in b.output_references), len(b.output_references))
                                for pk, b in bal.items()}))
            res[i] = got
        return run
    return [mk(i, asks) for i, asks in enumerate(plan)], dict(res=res, cs=cs, nodes=nodes)


def c03_check(x, cx, bad):
    for i, o in enumerate(x.outcome):
        if o is not None and o[0] == 'exc':
            bad.append(('balance-raises', "thread %d: balance query raises %r" % (i, o[1])))
    if bad:
        return None

    def cmp(node, got, who):
        rb = refmodel.balances(node.utxo)
        g = {k: v for k, v in got.items() if v[0] or v[1]}
        want = {k: (v[0], frozenset(v[1]), len(v[1])) for k, v in rb.items()}
        if g != want:
            bad.append(('balance-under-threads', "%s: the balances reported at block %s are not the replay of that block's chain "
                        "(%d keys reported, %d in the reference; another look-up was running on the same chain state)" % (
                            who, '/'.join(node.path), len(g), len(want))))
    for i, got in cx['res'].items():
        for node, b in got:
            cmp(node, b, "thread %d" % i)
    # ... and what the chain state answers afterwards (whatever the look-ups left behind in it)
    if not bad:
        for node in cx['nodes']:
            try:
                bal = cx['cs'].public_key_balances_by_hash[node.bid]
            except Exception as e:
                bad.append(('balance-raises', "afterwards: the balance query for block %s raises %r" % ('/'.join(node.path), e)))
                break
            cmp(node, {pk.public_key: (b.value, frozenset((r.hash, r.index) for r in b.output_references), len(b.output_references))
                       for pk, b in bal.items()}, "afterwards")
    return tuple(sorted((i, len(v)) for i, v in cx['res'].items()))


# ---------------------------------------------------------------- C18: the recorded blocks while another thread encodes

C18_PLANS = {
    # thread 0 re-validates a recorded block in full (real scrypt) / recomputes the recorded ids from the fields; thread 1
    # encodes other recorded objects (what the networking thread does when it sends or relays)
    'validate-block-2-vs-encode-block-3': ('validate', 2, 3),
    'validate-block-1-vs-encode-genesis': ('validate', 1, 0),
    'recompute-ids-vs-encode-block-1': ('ids', None, 1),
}


def c18_world():
    if 'c18' in _W:
        return _W['c18']
    from skepticoin import consensus, serialization
    from skepticoin.coinstate import CoinState
    from skepticoin.datatypes import Block
    from skepticoin.genesis import genesis_block_data
    chain_dir = os.path.join(os.environ.get('VERIF_REPO', '/repo'), 'tests', 'testdata', 'chain')
    raws = [genesis_block_data] + [open(os.path.join(chain_dir, f), 'rb').read() for f in sorted(os.listdir(chain_dir))][:3]
    # the real scrypt, memoised on its input (it is a function; a corrupted input is a different key and is computed afresh)
    real = consensus.scrypt
    memo = {}

    def scrypt_memo(*a, **k):
        key = (a, tuple(sorted(k.items())))
        if key not in memo:
            memo[key] = real(*a, **k)
        return memo[key]
    seams.rebind(consensus, 'scrypt', scrypt_memo)
    seams.lower_horizon()
    states = [CoinState.empty().add_block_no_validation(Block.deserialize(raws[0]))]
    for r in raws[1:]:
        states.append(states[-1].add_block_no_validation(Block.deserialize(r)))
    _W['c18'] = dict(raws=raws, states=states, trace={serialization.__file__: 'line'})
    return _W['c18']


def c18_make(name):
    from skepticoin import consensus
    from skepticoin.datatypes import Block, BlockHeader, BlockSummary, PowEvidence
    W = c18_world()
    kind, hv, he = C18_PLANS[name]
    res = {}

    def t0():
        if kind == 'validate':
            b = Block.deserialize(W['raws'][hv])
            try:
                consensus.validate_block_in_coinstate(b, W['states'][hv - 1])
                res['validated'] = True
            except Exception as e:
                res['validated'] = repr(e)[:120]
        else:
            out = []
            for r in W['raws']:
                b = Block.deserialize(r)
                s, e = b.header.summary, b.header.pow_evidence
                h2 = BlockHeader(BlockSummary(s.height, s.previous_block_hash, s.merkle_root_hash, s.timestamp, s.target, s.nonce),
                                 PowEvidence(e.summary_hash, e.chain_sample, e.block_hash))
                out.append((h2.hash(), b.hash(), Block(h2, list(b.transactions)).serialize() == r))
            res['ids'] = out

    def t1():
        b = Block.deserialize(W['raws'][he])
        res['encoded'] = (Block(b.header, list(b.transactions)).serialize() == W['raws'][he],
                          [t.serialize() for t in b.transactions] == [enc.enc_tx(t) for t in b.transactions])
    return [t0, t1], dict(res=res, kind=kind, hv=hv)


def c18_check(x, cx, bad):
    for i, o in enumerate(x.outcome):
        if o is not None and o[0] == 'exc':
            bad.append(('recorded-thread-raises', "thread %d raises %r" % (i, o[1])))
    if bad:
        return None
    r = cx['res']
    if cx['kind'] == 'validate' and r.get('validated') is not True:
        bad.append(('recorded-block-refused-under-threads', "recorded block %d fails the node's full validation (real scrypt) while "
                    "another thread is encoding a block: %s" % (cx['hv'], r.get('validated'))))
    if cx['kind'] == 'ids' and any(a != b or not same for a, b, same in r.get('ids', [])):
        bad.append(('recorded-id-under-threads', "a recorded block rebuilt from its fields does not keep its id / encoding while "
                    "another thread is encoding a block"))
    if r.get('encoded') not in (None, (True, True)):
        bad.append(('recorded-encoding-under-threads', "a recorded block does not re-encode to its recorded bytes while another "
                    "thread validates / hashes"))
    return (repr(r.get('validated')), r.get('encoded'))


def node_level_rejections(names):
    """(sequential, no schedule exploration) every rule-breaking candidate block of the C01 alphabet is delivered by a
    peer to a real node whose chain state came from start-up alone / from start-up plus a block its own miner found:
    the rejected delivery must leave the node's chain state (deep fingerprint), pool and store rows exactly as they were.
    Returns (number of deliveries, violations [(key, what, candidate name, pre-state)])"""
    mn_world()
    import skepticoin.networking.remote_peer as rp
    bad = []
    n = 0
    real_skip = rp.IBD_VALIDATION_SKIP
    for nm in names:
        for pre in ('start-up', 'own-block-mined', 'start-up, bulk-validation interval = the block height'):
            bodies, cx = mn_make('found-vs-invalid-delivery', invalid=nm)
            w = cx['w']
            # (scaled constant: "every 10,000th block is validated even during bulk download" - with the interval rebound to
            # the candidate's own height the relayed block sits exactly on that boundary)
            rp.IBD_VALIDATION_SKIP = cx['B'].height if pre.endswith('block height') and cx['B'].height > 0 else real_skip
            try:
                if pre == 'own-block-mined':
                    bodies[0]()
                    if enc.blockid(cx['M']) not in w.node.cm.coinstate.block_by_hash:
                        continue       # (C12's subject)
                before = (ledger.fingerprint(w.node.cm.coinstate), w.snapshot())
                bodies[1]()
                after = (ledger.fingerprint(w.node.cm.coinstate), w.snapshot())
                n += 1
                if enc.blockid(cx['B']) in after[1]['state_ids']:
                    bad.append(('node-accepts-rule-breaking-block', "a peer relays the rule-breaking block %r to a node in state '%s': "
                                "it enters the node's chain state" % (nm, pre), nm, pre))
                    continue
                diff = [k for k in ('state_ids', 'head', 'pool', 'rows') if before[1][k] != after[1][k]]
                if before[0] != after[0] and not diff:
                    diff = ['ledger content']
                if diff:
                    bad.append(('rejected-block-changes-node-state', "a peer delivers the rule-breaking block %r to a node in state "
                                "'%s': it is rejected, but the node's %s changed (chain state had %d blocks, has %d)" % (
                                    nm, pre, ', '.join(diff), len(before[1]['state_ids']), len(after[1]['state_ids'])), nm, pre))
            finally:
                rp.IBD_VALIDATION_SKIP = real_skip
                w.close()
    return n, bad


def node_level_names():
    W = mn_world()
    mn_make('found-vs-invalid-delivery')[1]['w'].close()
    return sorted(W['invalid'])


# =====================================================================================  driver

THREE_THREADS = {'writer-writer-flusher', 'admit-vs-spending-head-observed', 'conflicting-admissions-observed'}

FAMILIES = {
    'C08': (C08_PLANS, c08_world, c08_make, c08_check),
    'C13': (C13_PLANS, c13_world, c13_make, c13_check),
    'C07': (C07_PLANS, c07_world, c07_make, c07_check),
    'MN': (MN_PLANS, mn_world, mn_make, mn_check),
    'MNc': (MN_PLANS, mn_world_coarse, mn_make, mn_check),
    'C17': (C17_PLANS, c17_world, c17_make, c17_check),
    'C03': (C03_PLANS, c03_world, c03_make, c03_check),
    'C18': (C18_PLANS, c18_world, c18_make, c18_check),
}


def _explore(fam, name, bound, roots, children_only):
    plans, world_fn, make, check = FAMILIES[fam]
    W = world_fn()
    stats = {}
    found = {}
    outcomes = set()

    def mk():
        bodies, cx = make(name)
        cx['name'] = name
        return bodies, cx

    def chk(x, cx):
        bad = []
        fp = check(x, cx, bad)
        outcomes.add(fp)
        for key, what in bad:
            sw = x.switches()
            if key not in found or len(sw) < len(found[key][2]):
                found[key] = (what, x.choices(), sw, x.labels())
    limit = None
    kids = threads.explore(mk, W['trace'], bound, chk, limit=limit, stats=stats, roots=roots, children_only=children_only)
    return stats, found, outcomes, kids


def _worker(arg):
    fam, name, bound, roots, children_only = arg
    stats, found, outcomes, kids = _explore(fam, name, bound, roots, children_only)
    return fam, name, stats, {k: (v[0], v[1], v[2]) for k, v in found.items()}, outcomes, (kids if children_only else None)


def run(ctx, fam, bound, names=None, chunk=6, only=None):
    """explore every scenario of the family up to `bound` preemptions; reports violations through ctx (only those
    whose key starts with one of the prefixes in `only`, when given: a family shared by several properties tags its
    keys with the property).  Returns coverage numbers."""
    plans = FAMILIES[fam][0]
    names = list(names or plans)
    # three-thread scenarios are explored with one preemption less
    bnd = {n: (max(1, bound - 1) if n in THREE_THREADS else bound) for n in names}
    first = ctx.pmap(_worker, [(fam, n, bnd[n], None, True) for n in names])
    tot = {'executions': 0, 'points_max': 0, 'deadlocks': 0, 'diverged': 0}
    outcomes = {n: set() for n in names}
    jobs = []
    results = list(first)
    for fam_, name, stats, found, outs, kids in first:
        kids = kids or []
        if ctx.seed:
            import random
            random.Random(ctx.seed).shuffle(kids)
        for i in range(0, len(kids), chunk):
            jobs.append((fam, name, bnd[name], kids[i:i + chunk], False))
    results += ctx.pmap(_worker, jobs) if jobs else []
    for fam_, name, stats, found, outs, kids in results:
        tot['executions'] += stats.get('executions', 0)
        tot['points_max'] = max(tot['points_max'], stats.get('points_max', 0))
        tot['deadlocks'] += stats.get('deadlocks', 0)
        tot['diverged'] += stats.get('diverged', 0)
        outcomes[name] |= outs
        for key, (what, choices, sw) in found.items():
            if only is not None:
                if not key.startswith(tuple(only)):
                    tot['violations_of_other_properties'] = tot.get('violations_of_other_properties', 0) + 1
                    continue
                key = key.split(':', 1)[1]
            ctx.violation(key + '@threads:' + name, "%s; scenario %r, schedule (point, thread, at, switch to): %s" % (
                what, name, sw[:6]), {'thread_scenario': name, 'family': fam, 'choices': choices, 'only': list(only or [])})
    if tot['diverged']:
        ctx.cov['thread_replay_divergences'] = ctx.cov.get('thread_replay_divergences', 0) + tot['diverged']
        ctx.notes.append("thread schedules (%s): %d prefixes did not replay to the same labels - the code under test keeps state "
                         "across executions; those sub-trees were skipped" % (fam, tot['diverged']))
    tot['scenarios'] = len(names)
    tot['preemption_bound'] = bnd
    tot['distinct_outcomes'] = {n: len(o) for n, o in outcomes.items()}
    return tot


def replay(data):
    fam = data['family']
    plans, world_fn, make, check = FAMILIES[fam]
    W = world_fn()
    bodies, cx = make(data['thread_scenario'])
    cx['name'] = data['thread_scenario']
    x = threads.Execution(bodies, W['trace'], data['choices']).run()
    bad = []
    check(x, cx, bad)
    only = data.get('only') or None
    out = []
    for k, w in bad:
        if only:
            if not k.startswith(tuple(only)):
                continue
            k = k.split(':', 1)[1]
        out.append((k + '@threads:' + data['thread_scenario'], w))
    return out
