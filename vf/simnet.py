"""In-memory node harness: real LocalPeer / NetworkManager / ChainManager / ConnectedRemotePeer / MessageReceiver over
fake sockets (byte pipes), a fake selector and a virtual clock.  The explorer owns every event: which connection
is read next, when a dial completes, when timers step, what the clock says."""
import errno
import io
import selectors
import struct

from . import seams

EVENT_READ = selectors.EVENT_READ
EVENT_WRITE = selectors.EVENT_WRITE
MAGIC = b'MAJI'


class FakeSocket:
    _next_fd = 1000

    def __init__(self, net, owner=None):
        self.net = net
        self.owner = owner            # SimNode or None (harness-side endpoint)
        FakeSocket._next_fd += 1
        self.fd = FakeSocket._next_fd
        self.rx = bytearray()         # bytes waiting to be read by the owner
        self.peer = None              # the other end (FakeSocket) once connected
        self.connected = False
        self.closed = False
        self.remote_closed = False
        self.error = None             # OSError instance to raise on the next recv/send
        self.local = None             # (host, port) of this end
        self.remote = None            # (host, port) of the other end
        self.listening = False
        self.backlog = []             # pending client sockets (listening socket only)
        self.sent_total = 0
        self.max_send = None          # partial-send seam (bytes per send call) or None

    # ---- socket API used by the node
    def fileno(self):
        return -1 if self.closed else self.fd

    def setblocking(self, flag):
        pass

    def setsockopt(self, *a):
        pass

    def bind(self, addr):
        self.local = (self.owner.host if self.owner else '0.0.0.0', addr[1])
        self.net.listeners[self.local] = self

    def listen(self, *a):
        self.listening = True

    def _sync_refusal(self, addr):
        """addresses the kernel refuses synchronously (multicast / broadcast / this-network): no handshake is started"""
        host = str(addr[0])
        first = host.split('.')[0]
        return host == '255.255.255.255' or (first.isdigit() and 224 <= int(first) <= 239) or host in self.net.unreachable

    def connect_ex(self, addr):
        self.remote = (addr[0], addr[1])
        self.local = (self.owner.host if self.owner else '0.0.0.0', self.net.ephemeral())
        if self._sync_refusal(addr):
            # the socket is in an error state from now on: a selector reports it at once, recv / send raise
            self.error = OSError(errno.ENETUNREACH, "Network is unreachable")
            return errno.ENETUNREACH
        self.net.dialling.append(self)
        return errno.EINPROGRESS

    def connect(self, addr):
        e = self.connect_ex(addr)
        if e == errno.EINPROGRESS:
            raise BlockingIOError(errno.EINPROGRESS, "Operation now in progress")
        raise OSError(e, "Network is unreachable")

    def accept(self):
        if not self.backlog:
            raise BlockingIOError(errno.EAGAIN, "no pending connection")
        client = self.backlog.pop(0)
        srv = FakeSocket(self.net, self.owner)
        srv.local = self.local
        # a connection that was reset while it waited in the accept queue is still handed out by accept(); it has no peer
        # address any more (getpeername: ENOTCONN)
        srv.remote = client.local if not client.closed else None
        srv.peer = client
        client.peer = srv
        srv.connected = True
        client.connected = True
        self.net.connections.append((client, srv))
        return srv, srv.remote

    def getpeername(self):
        if self.remote is None or self.closed:
            raise OSError(errno.ENOTCONN, "Transport endpoint is not connected")
        return self.remote

    def recv(self, n):
        if self.closed:
            raise OSError(errno.EBADF, "Bad file descriptor")
        if self.error is not None:
            e, self.error = self.error, None
            raise e
        if self.rx:
            data = bytes(self.rx[:n])
            del self.rx[:n]
            return data
        if self.remote_closed:
            return b''
        raise BlockingIOError(errno.EAGAIN, "Resource temporarily unavailable")

    def send(self, data):
        if self.closed:
            raise OSError(errno.EBADF, "Bad file descriptor")
        if self.error is not None:
            e, self.error = self.error, None
            raise e
        if not self.connected:
            raise OSError(errno.ENOTCONN, "Transport endpoint is not connected")
        if self.remote_closed or self.peer is None or self.peer.closed:
            raise BrokenPipeError(errno.EPIPE, "Broken pipe")
        n = len(data) if self.max_send is None else min(len(data), self.max_send)
        self.peer.rx += data[:n]
        self.sent_total += n
        return n

    def close(self):
        if self.closed:
            return
        self.closed = True
        if self.peer is not None:
            self.peer.remote_closed = True
        if self in self.net.dialling:
            self.net.dialling.remove(self)

    def __repr__(self):
        return "<FakeSocket fd=%d %s->%s%s>" % (self.fd, self.local, self.remote, " closed" if self.closed else "")


class FakeSelectorKey:
    __slots__ = ('fileobj', 'fd', 'events', 'data')

    def __init__(self, fileobj, events, data):
        self.fileobj = fileobj
        self.fd = fileobj.fd
        self.events = events
        self.data = data


class FakeSelector:
    def __init__(self):
        self.map = {}

    def register(self, fileobj, events, data=None):
        if fileobj.closed:
            raise ValueError("Invalid file descriptor: -1")
        if fileobj in self.map:
            raise KeyError("%r is already registered" % (fileobj,))
        k = FakeSelectorKey(fileobj, events, data)
        self.map[fileobj] = k
        return k

    def modify(self, fileobj, events, data=None):
        if fileobj not in self.map:
            if fileobj.closed:
                raise ValueError("Invalid file descriptor: -1")
            raise KeyError("%r is not registered" % (fileobj,))
        if fileobj.closed:
            # what epoll does for a registered descriptor that has been closed behind the selector's back: the kernel call
            # fails (EBADF) and selectors.modify drops the registration before re-raising
            del self.map[fileobj]
            raise OSError(9, 'Bad file descriptor')
        k = self.map[fileobj]
        k.events = events
        k.data = data
        return k

    def unregister(self, fileobj):
        if fileobj not in self.map:
            raise KeyError("%r is not registered" % (fileobj,))
        return self.map.pop(fileobj)

    def get_map(self):
        return self.map

    def get_key(self, fileobj):
        return self.map[fileobj]

    def ready(self):
        """what a real selector would report now, in registration order: listening sockets with a pending connection and
        sockets with bytes (or an end-of-stream) to read are readable; connected sockets registered for writing are
        writable"""
        out = []
        for sock, k in list(self.map.items()):
            mask = 0
            if k.events & EVENT_READ:
                if sock.listening:
                    if sock.backlog:
                        mask |= EVENT_READ
                elif sock.rx or sock.remote_closed:
                    mask |= EVENT_READ
            if k.events & EVENT_WRITE and sock.connected and not sock.listening:
                mask |= EVENT_WRITE
            if mask:
                out.append((k, mask))
        return out

    def select(self, timeout=None):
        return self.ready()

    def close(self):
        pass


class FakeSocketModule:
    AF_INET = 2
    SOCK_STREAM = 1
    SOL_SOCKET = 1
    SO_REUSEADDR = 2

    def __init__(self, net):
        self.net = net
        self.error = OSError

    def socket(self, *a):
        return FakeSocket(self.net, self.net.current)


class Rnd:
    """scheduler-owned randomness: choice() is an explorer choice point, randrange() a counter"""

    def __init__(self):
        self.counter = 0
        self.chooser = None      # callable(seq) -> element, or None => first

    def randrange(self, *a):
        self.counter += 1
        return self.counter

    def choice(self, seq):
        if self.chooser is not None:
            return self.chooser(seq)
        return seq[0]


class NullDisk:
    """no-op disk interface (multi-node runs)"""

    def __init__(self):
        self.saved = []
        self.flushes = 0
        self.peers_written = []

    def save_block(self, block):
        self.saved.append(block)

    def flush_blocks(self):
        self.flushes += 1

    def write_peers(self, peer):
        self.peers_written.append((peer.host, peer.port, peer.direction))

    def load_peers(self):
        return {}

    def save_transaction_for_debugging(self, tx):
        pass


class Net:
    def __init__(self, clock=None):
        self.listeners = {}
        self.unreachable = set()
        self.dialling = []
        self.connections = []
        self.current = None
        self.clock = clock or seams.Clock(0)
        self.rnd = Rnd()
        self._eph = 40000
        self.nodes = []
        self.escaped = []        # exceptions that escaped a handler: (node name, where, repr)

    def ephemeral(self):
        self._eph += 1
        return self._eph

    def install(self):
        """module-level seams (once per process is enough; rebinding again is harmless)"""
        import skepticoin.networking.local_peer as lp
        import skepticoin.networking.remote_peer as rp
        import skepticoin.networking.manager as mg
        seams.rebind(lp, 'socket', FakeSocketModule(self))
        seams.rebind(lp, 'time', self.clock)
        seams.rebind(rp, 'time', self.clock)
        seams.rebind(lp, 'random', self.rnd)
        seams.rebind(rp, 'random', self.rnd)
        seams.rebind(mg, 'random', self.rnd)
        # whatever other skepticoin module reads the wall clock reads the same virtual one (time() or the time module)
        import sys
        import time as _time
        import skepticoin.blockstore  # noqa: F401
        import skepticoin.networking.disk_interface  # noqa: F401
        clock = self.clock

        class _TimeShim:
            def __getattr__(self, name):
                return getattr(_time, name)

            def time(self):
                return clock()

            def monotonic(self):
                return clock()
        for name, mod in list(sys.modules.items()):
            if not name.startswith('skepticoin') or mod is None or mod in (lp, rp):
                continue
            d = getattr(mod, '__dict__', {})
            if d.get('time') is _time.time or isinstance(d.get('time'), seams.Clock):
                mod.__dict__['time'] = clock
            elif d.get('time') is _time or isinstance(d.get('time'), _TimeShim):
                mod.__dict__['time'] = _TimeShim()
            if d.get('monotonic') is _time.monotonic:
                mod.__dict__['monotonic'] = clock

    # ---- connection establishment, scheduler events
    def complete_dial(self, sock):
        """the TCP handshake of a dialling socket completes (listener exists) or is refused"""
        if sock not in self.dialling:
            return False
        self.dialling.remove(sock)
        lst = self.listeners.get(sock.remote)
        if lst is None or lst.closed:
            sock.error = ConnectionRefusedError(errno.ECONNREFUSED, "Connection refused")
            return False
        lst.backlog.append(sock)
        return True


class SimNode:
    def __init__(self, net, name, host, coinstate, port=2412, disk=None, nonce=None, listen=True):
        from skepticoin.networking.local_peer import LocalPeer
        self.net = net
        self.name = name
        self.host = host
        net.current = self
        self.disk = disk if disk is not None else NullDisk()
        # the node is brought up the way every script does it: NetworkingThread(coinstate, port, disk_interface) builds the
        # LocalPeer and installs the start-up chain state (the thread itself is never started; the harness plays its loop).
        # The peer book is supplied by the harness afterwards, so the start-up load (which would try the network) is empty.
        from skepticoin.networking.threading import NetworkingThread
        self.disk.load_peers = lambda: {}
        try:
            nt = NetworkingThread(coinstate, None, self.disk)
        finally:
            try:
                del self.disk.load_peers
            except AttributeError:
                pass
        lp = nt.local_peer
        if not isinstance(lp, LocalPeer):
            raise seams.HarnessError("NetworkingThread did not build a LocalPeer")
        try:
            lp.selector.close()
        except Exception:
            pass
        lp.selector = FakeSelector()
        lp.nonce = nonce if nonce is not None else (len(net.nodes) + 1) * 1111
        lp.running = True
        lp.chain_manager.started_at = int(net.clock())
        self.lp = lp
        self.lsock = None
        if listen:
            lp.start_listening(port)
            self.lsock = [s for s, k in lp.selector.get_map().items() if s.listening][0]
        net.nodes.append(self)
        self.relay_counts = {}

    # ---- guarded calls: an exception escaping a handler would end LocalPeer.run()
    def _guard(self, where, fn, *a):
        self.net.current = self
        try:
            fn(*a)
            return True
        except Exception as e:
            self.net.escaped.append((self.name, where, repr(e)[:200]))
            return False

    def tick(self, t=None):
        t = int(self.net.clock()) if t is None else t
        ok = self._guard('step_managers', self.lp.step_managers, t)
        self.flush()
        return ok

    def accept(self):
        ok = self._guard('handle_incoming_connection', self.lp.handle_incoming_connection, self.lsock)
        self.flush()
        return ok

    def read_event(self, sock):
        """the selector reports `sock` readable: one recv(1024) as the node does"""
        k = self.lp.selector.get_map().get(sock)
        if k is None:
            return False
        ok = self._guard('selector_event(read)', self.lp.handle_remote_peer_selector_event, k, EVENT_READ)
        self.flush()
        return ok

    def flush(self):
        """write events for every registered, connected socket that wants to write (eager flushing)"""
        progress = True
        while progress:
            progress = False
            for sock, k in list(self.lp.selector.get_map().items()):
                if sock.listening or not (k.events & EVENT_WRITE) or not sock.connected:
                    continue
                if self.lp.selector.get_map().get(sock) is not k:
                    continue
                before = sock.sent_total
                self._guard('selector_event(write)', self.lp.handle_remote_peer_selector_event, k, EVENT_WRITE)
                if sock.sent_total != before:
                    progress = True

    def deliver(self, sock, nbytes=None):
        """feed the node everything (or the next nbytes) pending on sock via 1024-byte read events"""
        if nbytes is None:
            while sock.rx and sock in self.lp.selector.get_map():
                self.read_event(sock)
            if not sock.rx and sock.remote_closed and sock in self.lp.selector.get_map():
                self.read_event(sock)
            return
        held = bytes(sock.rx[nbytes:])
        del sock.rx[nbytes:]
        while sock.rx and sock in self.lp.selector.get_map():
            self.read_event(sock)
        sock.rx += held

    @property
    def nm(self):
        return self.lp.network_manager

    @property
    def cm(self):
        return self.lp.chain_manager

    def peer_for(self, sock):
        k = self.lp.selector.get_map().get(sock)
        return k.data if k is not None else None


class Remote:
    """harness-side endpoint of a connection to a SimNode: the harness plays the remote peer"""

    def __init__(self, net, node, host='9.9.9.9', incoming=True, port=None):
        self.net = net
        self.node = node
        self.msg_id = 0
        if incoming:
            s = FakeSocket(net, None)
            s.local = (host, port if port is not None else net.ephemeral())
            s.remote = node.lsock.local
            node.lsock.backlog.append(s)
            node.accept()
            self.sock = s
        else:
            raise NotImplementedError
        self.node_sock = self.sock.peer

    @classmethod
    def for_dial(cls, net, node, dial_sock, host):
        """attach to an outgoing connection the node has started (dial_sock is the node's socket)"""
        r = cls.__new__(cls)
        r.net = net
        r.node = node
        r.msg_id = 0
        s = FakeSocket(net, None)
        s.local = dial_sock.remote
        s.remote = dial_sock.local
        s.peer = dial_sock
        dial_sock.peer = s
        s.connected = True
        dial_sock.connected = True
        if dial_sock in net.dialling:
            net.dialling.remove(dial_sock)
        r.sock = s
        r.node_sock = dial_sock
        return r

    def frame(self, message, in_response_to=0, ts=None):
        from skepticoin.networking.messages import MessageHeader
        self.msg_id += 1
        h = MessageHeader(int(self.net.clock()) if ts is None else ts, self.msg_id, in_response_to, 4242)
        data = h.serialize() + message.serialize()
        return MAGIC + struct.pack(">I", len(data)) + data

    def send_raw(self, data, deliver=True):
        """put bytes on the wire towards the node and (by default) let the node read them all"""
        self.sock.send(data) if not self.sock.closed and self.sock.peer and not self.sock.peer.closed else None
        if deliver:
            self.node.deliver(self.node_sock)

    def send(self, message, in_response_to=0, deliver=True, ts=None, announce=True):
        if announce and in_response_to and type(message).__name__ == 'DataMessage' and message.data_type == b'\x00\x00':
            # a block sent as the ANSWER to a request: the node treats it as part of a bulk download only if it has asked this
            # peer for it, so the block is first listed in an inventory (which makes the node ask)
            try:
                self.announce([message.data.hash()], in_response_to)
            except Exception:
                pass
        self.send_raw(self.frame(message, in_response_to, ts), deliver)

    def announce(self, block_ids, in_response_to=76):
        from skepticoin.networking.messages import InventoryMessage, InventoryItem, DATA_BLOCK
        self.send(InventoryMessage([InventoryItem(DATA_BLOCK, b) for b in block_ids]), in_response_to=in_response_to)

    def hello(self, my_port=2412, nonce=987654, ts=None, agent=b'vf'):
        """ts: the (sender-chosen) time stamp in the message header"""
        from ipaddress import IPv6Address
        from skepticoin.networking.messages import HelloMessage, SupportedVersion
        self.send(HelloMessage([SupportedVersion(0)], IPv6Address('::ffff:1.1.1.1'), 0, IPv6Address(0), my_port, nonce, agent), ts=ts)

    def received(self):
        """parse and drain everything the node has sent on this connection: list of (header, message)"""
        out = []
        buf = self.sock.rx
        while len(buf) >= 8:
            if bytes(buf[:4]) != MAGIC:
                raise seams.HarnessError("node sent bad magic")
            (ln,) = struct.unpack(">I", bytes(buf[4:8]))
            if len(buf) < 8 + ln:
                break
            out.append(parse_payload(bytes(buf[8:8 + ln])))
            del buf[:8 + ln]
        return out

    def close(self):
        self.sock.close()
        self.node.deliver(self.node_sock)

    @property
    def alive(self):
        return not self.node_sock.closed and self.node_sock in self.node.lp.selector.get_map()


def parse_payload(pl):
    from skepticoin.networking.messages import Message, MessageHeader
    f = io.BytesIO(pl)
    h = MessageHeader.stream_deserialize(f)
    m = Message.stream_deserialize(f)
    return h, m


def frames_of(buf):
    """split a byte string into complete frames (bytes each) + remainder"""
    out = []
    pos = 0
    while len(buf) - pos >= 8:
        (ln,) = struct.unpack(">I", buf[pos + 4:pos + 8])
        if len(buf) - pos < 8 + ln:
            break
        out.append(bytes(buf[pos:pos + 8 + ln]))
        pos += 8 + ln
    return out, bytes(buf[pos:])
