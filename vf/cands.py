"""Candidate-block alphabets for C01 (spend rules), C02 (value rules), C05 (header rules).
Each candidate is built on a parent Node so that *only* the intended rule is broken (the block is
re-assembled: evidence, merkle root and nonce are consistent with whatever else was changed)."""
from skepticoin.datatypes import Block, Input, Output, OutputReference, Transaction
from skepticoin.signing import CoinbaseData, SECP256k1Signature, SignableEquivalent

from . import enc, refmodel, world
from .world import K, NULL32, assemble, mk_tx, oref, owned, sign

COIN = 100_000_000
MAXS = refmodel.MAX_SASHIMI
KEY_BY_PUB = {k.pub: k for k in K if k.sk is not None}


class Cand:
    __slots__ = ('name', 'block', 'now', '_tags', '_wire', 'parent', 'control')

    def __init__(self, name, block, parent, now=None, control=False):
        self.name = name
        self.block = block
        self.parent = parent
        self.now = now if now is not None else block.header.summary.timestamp
        self._tags = None
        self._wire = False
        self.control = control

    def tags(self):
        if self._tags is None:
            self._tags = frozenset(refmodel.validate_block(self.block, self.parent, self.now))
        return self._tags

    def wire(self):
        """decoded-from-bytes form, or None if the object cannot be encoded"""
        if self._wire is False:
            try:
                self._wire = Block.deserialize(enc.enc_block(self.block))
            except Exception:
                self._wire = None
        return self._wire


def _blk(P, txs, name, out, control=False, **kw):
    ts = kw.pop('ts', P.ts + 120)
    now = kw.pop('now', None)
    miner = kw.pop('miner', K[4])
    if 'cb_outs' not in kw and 'all_txs' not in kw and 'cb_tx' not in kw and not control:
        kw['cb_outs'] = [(refmodel.subsidy(P.height + 1), miner)]       # claim no fees: reward rule stays satisfied
    try:
        b = assemble(P, txs, miner, ts, **kw)
    except Exception as e:       # candidate not constructible at this parent
        return
    out.append(Cand(name, b, P, now=now, control=control))


def base_spend(P):
    """(ref key, value) of K0's largest output at P, or None"""
    o = owned(P.utxo, K[0])
    if not o:
        return None
    return o[0], P.utxo[o[0]][0]


def spent_in_ancestry(P):
    """an output that existed at some ancestor but is spent at P: (ref, value, owner key)"""
    n = P.parent
    while n is not None:
        for r, (v, pk) in sorted(n.utxo.items()):
            if r not in P.utxo and pk in KEY_BY_PUB:
                return r, v, KEY_BY_PUB[pk]
        n = n.parent
    return None


def c01_candidates(P, uni, sibling_labels=('e', 'a', 'b', 'c')):
    out = []
    U = P.utxo
    bs = base_spend(P)
    if bs is None:
        return out
    o, v = bs
    if v < 100:
        return out
    o_ref = oref(o)
    COIN = min(globals()['COIN'], v // 3)
    T0 = mk_tx([(o_ref, K[0])], [(COIN, K[1]), (v - COIN - 1000 % (v // 10), K[0])])
    h = P.height + 1
    o1 = owned(U, K[1])
    o0 = owned(U, K[0])
    # ---- controls
    _blk(P, [T0], 'ok-1in-change', out, control=True)
    _blk(P, [mk_tx([(o_ref, K[0])], [(v, K[1])])], 'ok-nochange-nofee', out, control=True)
    if o1:
        v1 = U[o1[0]][0]
        T2 = mk_tx([(o_ref, K[0]), (oref(o1[0]), K[1])], [(v + v1 - 7, K[2])])
        _blk(P, [T2], 'ok-2in-2keys', out, control=True)
        _blk(P, [T0, mk_tx([(oref(o1[0]), K[1])], [(v1, K[0])])], 'ok-2tx', out, control=True)
    # ---- existence
    fake = enc.sha256d(b'no such transaction')
    _blk(P, [mk_tx([(OutputReference(fake, 0), K[0])], [(COIN, K[1])])], 'missing-tx', out)
    nouts = 1 + max(i for (t, i) in U if t == o[0])
    _blk(P, [mk_tx([(OutputReference(o[0], nouts), K[0])], [(COIN, K[1])])], 'index-out-of-range', out)
    _blk(P, [mk_tx([(OutputReference(o[0], 0xffffffff), K[0])], [(COIN, K[1])])], 'index-max', out)
    sp = spent_in_ancestry(P)
    if sp:
        r, sv, owner = sp
        _blk(P, [mk_tx([(oref(r), owner)], [(sv, K[1])])], 'already-spent-in-ancestry', out)
        _blk(P, [T0, mk_tx([(oref(r), owner)], [(sv, K[1])])], 'valid-plus-already-spent', out)
    # an output that exists only on a sibling / other fork
    for lab in sibling_labels:
        if not P.path:
            break
        Q = uni.get(P.path[:-1] + (lab,))
        if Q is None or Q is P:
            continue
        cand = [(r, x) for r, x in sorted(Q.utxo.items()) if r not in U and x[1] in KEY_BY_PUB and
                not any(r in a.utxo for a in P.chain())]
        if cand:
            r, (sv, pk) = cand[0]
            _blk(P, [mk_tx([(oref(r), KEY_BY_PUB[pk])], [(sv, K[1])])], 'sibling-fork-output-%s' % lab, out)
    # outputs created in this same block
    cbv = refmodel.subsidy(h)
    cb = world.coinbase_tx(h, [(cbv, K[4])])
    _blk(P, [mk_tx([(OutputReference(enc.txid(cb), 0), K[4])], [(cbv, K[1])])], 'spend-own-reward', out, cb_tx=cb)
    _blk(P, [T0, mk_tx([(OutputReference(enc.txid(T0), 0), K[1])], [(COIN, K[2])])], 'spend-earlier-tx-of-block', out)
    _blk(P, [mk_tx([(OutputReference(enc.txid(T0), 1), K[0])], [(5, K[2])]), T0], 'spend-later-tx-of-block', out)
    # ---- a block that states its parent's height (reward data matching): with a checkpoint horizon at that height the stated
    # height would put it below the horizon although it sits above it
    _blk(P, [mk_tx([(o_ref, K[2])], [(v, K[1])])], 'states-parent-height+signature-by-another-key', out, height=P.height)
    _blk(P, [mk_tx([(o_ref, K[2])], [(v, K[1])])], 'states-parent-height+max-target+signature-by-another-key', out, height=P.height,
         target=b'\xff' * 32)
    # ---- repeated references
    _blk(P, [mk_tx([(o_ref, K[0]), (o_ref, K[0])], [(v, K[1])])], 'same-ref-twice-in-tx', out)
    _blk(P, [mk_tx([(o_ref, K[0]), (o_ref, K[0])], [(2 * v, K[1])])], 'same-ref-twice-in-tx-double-value', out)
    _blk(P, [mk_tx([(o_ref, K[0]), (o_ref, ('second-signature', K[0]))], [(2 * v - 3, K[1])])], 'same-ref-twice-two-distinct-signatures', out)
    _blk(P, [T0, mk_tx([(o_ref, K[0])], [(v - 5, K[2])])], 'same-ref-in-two-txs', out)
    if o1:
        _blk(P, [T2, T0], 'same-ref-in-two-txs-2in', out)
        # the two transactions spending the same output are not neighbours
        Tmid = mk_tx([(oref(o1[0]), K[1])], [(U[o1[0]][0] - 3, K[0])])
        _blk(P, [T0, Tmid, mk_tx([(o_ref, K[0])], [(v - 5, K[2])])], 'same-ref-in-first-and-third-tx', out)
        _blk(P, [mk_tx([(o_ref, K[0])], [(v - 5, K[2])]), Tmid, T0], 'same-ref-in-third-and-first-tx', out)
        if len(o1) > 1:
            Tmid2 = mk_tx([(oref(o1[1]), K[1])], [(U[o1[1]][0] - 3, K[0])])
            _blk(P, [T0, Tmid, Tmid2, mk_tx([(o_ref, K[0])], [(v - 5, K[2])])], 'same-ref-in-first-and-fourth-tx', out)
        # multi-input transactions with exactly one wrongly signed input (first / second)
        v1 = U[o1[0]][0]
        _blk(P, [mk_tx([(o_ref, K[0]), (oref(o1[0]), K[2])], [(v + v1 - 7, K[2])])], 'second-input-signed-by-wrong-key', out)
        _blk(P, [mk_tx([(o_ref, K[2]), (oref(o1[0]), K[1])], [(v + v1 - 7, K[2])])], 'first-input-signed-by-wrong-key', out)
        _blk(P, [mk_tx([(o_ref, K[0]), (oref(o1[0]), K[0])], [(v + v1 - 7, K[2])])], 'second-input-signed-by-first-inputs-key', out)
    # ---- two unspent outputs of ONE funding transaction held by different keys, spent together: each order, all signed
    #      by one of the two owners (a payer taking a payment back together with its own change)
    by_tx = {}
    for r, x in sorted(U.items()):
        if x[1] in KEY_BY_PUB and x[0] > 20:
            by_tx.setdefault(r[0], []).append(r)
    done = 0
    for t, refs in sorted(by_tx.items()):
        pairs = [(ra, rb) for ra in refs for rb in refs if ra < rb and U[ra][1] != U[rb][1]]
        for ra, rb in pairs[:2]:
            ka, kb = KEY_BY_PUB[U[ra][1]], KEY_BY_PUB[U[rb][1]]
            tot = U[ra][0] + U[rb][0] - 9
            tag = '' if not done else '-%d' % done
            _blk(P, [mk_tx([(oref(ra), ka), (oref(rb), kb)], [(tot, K[2])])], 'ok-sibling-outputs-2keys' + tag, out, control=True)
            _blk(P, [mk_tx([(oref(ra), kb), (oref(rb), kb)], [(tot, K[2])])], 'sibling-outputs-both-signed-by-second-owner' + tag, out)
            _blk(P, [mk_tx([(oref(ra), ka), (oref(rb), ka)], [(tot, K[2])])], 'sibling-outputs-both-signed-by-first-owner' + tag, out)
            _blk(P, [mk_tx([(oref(rb), ka), (oref(ra), ka)], [(tot, K[2])])], 'sibling-outputs-reversed-both-signed-by-first-owner' + tag, out)
            _blk(P, [mk_tx([(oref(rb), kb), (oref(ra), kb)], [(tot, K[2])])], 'sibling-outputs-reversed-both-signed-by-second-owner' + tag, out)
            done += 1
            if done >= 2:
                break
        if done >= 2:
            break
    # ---- signatures
    _blk(P, [mk_tx([(o_ref, K[1])], [(COIN, K[1]), (v - COIN - 1000 % (v // 10), K[0])])], 'signed-by-other-wallet-key', out)
    _blk(P, [mk_tx([(o_ref, K[2])], [(COIN, K[1]), (v - COIN - 1000 % (v // 10), K[0])])], 'signed-by-foreign-key', out)
    s0 = T0.inputs[0].signature
    _blk(P, [Transaction([Input(o_ref, s0)], [Output(COIN, K[2].pk), T0.outputs[1]])], 'recipient-changed-after-signing', out)
    _blk(P, [Transaction([Input(o_ref, s0)], [Output(COIN - 1, K[1].pk), T0.outputs[1]])], 'value-changed-after-signing', out)
    _blk(P, [Transaction([Input(o_ref, s0)], list(T0.outputs) + [Output(500, K[2].pk)])], 'output-added-after-signing', out)
    _blk(P, [Transaction([Input(o_ref, s0)], [T0.outputs[0]])], 'output-removed-after-signing', out)
    _blk(P, [Transaction([Input(o_ref, s0)], [T0.outputs[1], T0.outputs[0]])], 'outputs-reordered-after-signing', out)
    other = [r for r in o0[1:]] + o1
    if other:
        r2 = other[0]
        k2 = KEY_BY_PUB[U[r2][1]]
        v2 = U[r2][0]
        final = Transaction([Input(o_ref, SignableEquivalent()), Input(oref(r2), SignableEquivalent())], list(T0.outputs))
        s2 = SECP256k1Signature(sign(k2, enc.signed_message(final)))
        _blk(P, [Transaction([Input(o_ref, s0), Input(oref(r2), s2)], list(T0.outputs))], 'input-added-after-signing', out)
        both = mk_tx([(o_ref, K[0]), (oref(r2), k2)], list(zip([COIN, v - COIN - 1000 % (v // 10)], [K[1], K[0]])))
        _blk(P, [Transaction([both.inputs[0]], list(both.outputs))], 'input-removed-after-signing', out)
        _blk(P, [Transaction([both.inputs[1], both.inputs[0]], list(both.outputs))], 'inputs-reordered-after-signing', out)
        if U[r2][1] == K[0].pub:
            sw = mk_tx([(o_ref, K[0])], [(min(v, v2) - 9, K[1])])
            _blk(P, [Transaction([Input(oref(r2), sw.inputs[0].signature)], list(sw.outputs))], 'ref-swapped-after-signing', out)
    # the same post-signing alterations, with the signature made over whatever the implementation itself takes as
    # the signed message (an adversary adapts to the node it attacks): identical to the above on a correct tree
    try:
        imsg = T0.signable_equivalent().serialize()
    except Exception:
        imsg = None
    if imsg is not None and imsg != enc.signed_message(T0):
        si = SECP256k1Signature(sign(K[0], imsg))
        _blk(P, [Transaction([Input(o_ref, si)], list(T0.outputs))], 'implsigned-unaltered', out)
        _blk(P, [Transaction([Input(o_ref, si)], [Output(COIN, K[2].pk), T0.outputs[1]])], 'implsigned-recipient-changed', out)
        _blk(P, [Transaction([Input(o_ref, si)], [T0.outputs[0], Output(T0.outputs[1].value, K[2].pk)])], 'implsigned-recipient2-changed', out)
        _blk(P, [Transaction([Input(o_ref, si)], [Output(COIN - 1, K[1].pk), T0.outputs[1]])], 'implsigned-value-changed', out)
        _blk(P, [Transaction([Input(o_ref, si)], [T0.outputs[0], Output(T0.outputs[1].value - 1, K[0].pk)])], 'implsigned-value2-changed', out)
        _blk(P, [Transaction([Input(o_ref, si)], list(T0.outputs) + [Output(500, K[2].pk)])], 'implsigned-output-added', out)
        _blk(P, [Transaction([Input(o_ref, si)], [T0.outputs[0]])], 'implsigned-output-removed', out)
        _blk(P, [Transaction([Input(o_ref, si)], [T0.outputs[1], T0.outputs[0]])], 'implsigned-outputs-reordered', out)
        if other:
            _blk(P, [Transaction([Input(oref(other[0]), si)], [Output(5, K[1].pk)])], 'implsigned-ref-swapped', out)
            try:
                s2i = SECP256k1Signature(sign(KEY_BY_PUB[U[other[0]][1]], imsg))
                _blk(P, [Transaction([Input(o_ref, si), Input(oref(other[0]), s2i)], list(T0.outputs))], 'implsigned-input-added', out)
            except Exception:
                pass
    if other:
        r2 = other[0]
        k2 = KEY_BY_PUB[U[r2][1]]
        B2 = Transaction([Input(o_ref, SignableEquivalent()), Input(oref(r2), SignableEquivalent())], list(T0.outputs))
        try:
            imsg2 = B2.signable_equivalent().serialize()
        except Exception:
            imsg2 = None
        if imsg2 is not None and imsg2 != enc.signed_message(B2):
            sa = SECP256k1Signature(sign(K[0], imsg2))
            sb = SECP256k1Signature(sign(k2, imsg2))
            _blk(P, [Transaction([Input(o_ref, sa), Input(oref(r2), sb)], list(T0.outputs))], 'implsigned2-unaltered', out)
            _blk(P, [Transaction([Input(oref(r2), sb), Input(o_ref, sa)], list(T0.outputs))], 'implsigned2-inputs-reordered', out)
            _blk(P, [Transaction([Input(o_ref, sa)], list(T0.outputs))], 'implsigned2-input-removed', out)
            _blk(P, [Transaction([Input(o_ref, sa), Input(oref(r2), sb)], [Output(COIN, K[2].pk), T0.outputs[1]])], 'implsigned2-recipient-changed', out)
            third = [r for r in other[1:]]
            if third:
                try:
                    sc = SECP256k1Signature(sign(KEY_BY_PUB[U[third[0]][1]], imsg2))
                    _blk(P, [Transaction([Input(o_ref, sa), Input(oref(third[0]), sc)], list(T0.outputs))], 'implsigned2-second-ref-swapped', out)
                    _blk(P, [Transaction([Input(o_ref, sa), Input(oref(r2), sb), Input(oref(third[0]), sc)], list(T0.outputs))], 'implsigned2-input-added', out)
                except Exception:
                    pass
    # two (three) outputs of ONE key spent together: the first input properly signed, a later one not (a check done once per
    # key instead of once per input would pass it)
    for kk in (K[0], K[1]):
        mine = owned(U, kk)
        if len(mine) >= 2:
            tot = sum(U[r][0] for r in mine[:2])
            good = mk_tx([(oref(mine[0]), kk), (oref(mine[1]), kk)], [(tot - 9, K[2])])
            _blk(P, [good], 'two-outputs-of-one-key-both-signed', out, control=True)
            g0, g1 = good.inputs
            other_k = K[2]
            forged = mk_tx([(oref(mine[0]), kk), (oref(mine[1]), other_k)], [(tot - 9, K[2])])
            _blk(P, [forged], 'two-outputs-of-one-key-second-signed-by-another-key', out)
            _blk(P, [Transaction([g0, Input(g1.output_reference, SECP256k1Signature(b'\x07' * 64))], list(good.outputs))],
                 'two-outputs-of-one-key-second-signature-garbage', out)
            _blk(P, [Transaction([g0, Input(g1.output_reference, g0.signature)], list(good.outputs))],
                 'two-outputs-of-one-key-second-signature-copied-from-first', out) if g0.signature != g1.signature else None
            _blk(P, [Transaction([Input(g0.output_reference, SECP256k1Signature(b'\x07' * 64)), g1], list(good.outputs))],
                 'two-outputs-of-one-key-first-signature-garbage', out)
            break
    Tother = mk_tx([(o_ref, K[0])], [(v - 5, K[2])])
    _blk(P, [Transaction([Input(o_ref, Tother.inputs[0].signature)], list(T0.outputs))], 'signature-of-another-tx', out)
    _blk(P, [Transaction([Input(o_ref, SignableEquivalent())], list(T0.outputs))], 'placeholder-signable-equivalent', out)
    _blk(P, [Transaction([Input(o_ref, CoinbaseData(h, b'x'))], list(T0.outputs))], 'placeholder-coinbase-data', out)
    _blk(P, [Transaction([Input(o_ref, SECP256k1Signature(b'\x00' * 64))], list(T0.outputs))], 'zero-signature', out)
    _blk(P, [Transaction([Input(o_ref, SECP256k1Signature(s0.signature[:32] + b'\x00' * 32))], list(T0.outputs))], 'half-zero-signature', out)
    _blk(P, [mk_tx([(OutputReference(NULL32, 0), K[0])], [(COIN, K[1])])], 'null-ref-signed', out)
    _blk(P, [world.coinbase_tx(h, [(1, K[1])], b'second')], 'second-reward-style-tx', out)
    bad = [r for r, x in sorted(U.items()) if x[1] == K[3].pub]
    if bad:
        _blk(P, [mk_tx([(oref(bad[0]), ('raw', s0.signature))], [(5, K[1])])], 'spend-of-invalid-point-key', out)
        _blk(P, [mk_tx([(oref(bad[0]), K[0])], [(5, K[1])])], 'spend-of-invalid-point-key-2', out)
    return out


def c01_state_candidates(P, head, out=None):
    """state dependent: an output that is unspent at the *head* but not at P"""
    out = []
    if head is P:
        return out
    for r, (sv, pk) in sorted(head.utxo.items()):
        if r not in P.utxo and pk in KEY_BY_PUB:
            _blk(P, [mk_tx([(oref(r), KEY_BY_PUB[pk])], [(sv, K[1])])], 'output-unspent-at-head-only', out)
            break
    return out


def c02_candidates(P, uni):
    out = []
    U = P.utxo
    bs = base_spend(P)
    h = P.height + 1
    sub = refmodel.subsidy(h)
    if bs is None:
        return out
    o, v = bs
    if v < 100:
        return out
    o_ref = oref(o)
    COIN = min(globals()['COIN'], v // 3)
    fee = 1000 % (v // 10)
    if fee < 3:
        return out
    T0 = mk_tx([(o_ref, K[0])], [(COIN, K[1]), (v - COIN - fee, K[0])])
    M = K[4]
    # ---- reward bound
    _blk(P, [T0], 'reward-exact', out, control=True, cb_outs=[(sub + fee, M)])
    _blk(P, [T0], 'reward-minus-1', out, control=True, cb_outs=[(sub + fee - 1, M)])
    _blk(P, [T0], 'reward-plus-1', out, cb_outs=[(sub + fee + 1, M)])
    _blk(P, [], 'reward-plus-1-nofees', out, cb_outs=[(sub + 1, M)])
    _blk(P, [], 'reward-exact-nofees', out, control=True, cb_outs=[(sub, M)])
    _blk(P, [], 'reward-claims-absent-fee', out, cb_outs=[(sub + fee, M)])
    # a transaction paying the same key twice (equal and different amounts): the reward may claim its real fee, not more
    for nm, a, b in (('equal', COIN // 2, COIN // 2), ('different', COIN // 2, COIN // 2 - 1)):
        Td = mk_tx([(o_ref, K[0])], [(a, K[1]), (b, K[1]), (v - a - b - fee, K[0])])
        _blk(P, [Td], 'two-outputs-to-one-key-%s-reward-exact' % nm, out, control=True, cb_outs=[(sub + fee, M)])
        _blk(P, [Td], 'two-outputs-to-one-key-%s-reward-claims-first' % nm, out, cb_outs=[(sub + fee + a, M)])
        _blk(P, [Td], 'two-outputs-to-one-key-%s-reward-claims-second' % nm, out, cb_outs=[(sub + fee + b, M)])
    _blk(P, [], 'states-parent-height+reward-plus-1', out, cb_outs=[(sub + 1, M)], height=P.height)
    _blk(P, [T0], 'reward-split-3-exact', out, control=True, cb_outs=[(sub, M), (fee - 1, K[1]), (1, K[2])])
    _blk(P, [T0], 'reward-split-3-plus-1', out, cb_outs=[(sub, M), (fee, K[1]), (1, K[2])])
    _blk(P, [T0], 'reward-double', out, cb_outs=[(sub + fee, M), (sub + fee, M)])
    _blk(P, [T0], 'reward-max', out, cb_outs=[(MAXS, M)])
    _blk(P, [T0], 'reward-2^64-1', out, cb_outs=[(2**64 - 1, M)])
    _blk(P, [T0], 'reward-wrap-2^64', out, cb_outs=[(2**64 - 1, M), (sub + fee + 1, M)])
    _blk(P, [], 'reward-zero-output', out, control=True, cb_outs=[(0, M), (sub, M)])
    _blk(P, [], 'reward-no-outputs', out, control=True, cb_outs=[])
    # fees of a negative-fee partner must not help
    T_over = mk_tx([(o_ref, K[0])], [(v + 1, K[1])])
    _blk(P, [T_over], 'overspend-by-1', out)
    _blk(P, [mk_tx([(o_ref, K[0])], [(v, K[1])])], 'outputs-equal-inputs', out, control=True)
    _blk(P, [mk_tx([(o_ref, K[0])], [(v - 1, K[1])])], 'outputs-inputs-minus-1', out, control=True, cb_outs=[(sub + 1, M)])
    _blk(P, [mk_tx([(o_ref, K[0])], [(v - 1, K[1])])], 'outputs-inputs-minus-1-reward-plus-2', out, cb_outs=[(sub + 2, M)])
    o1 = owned(U, K[1])
    if o1:
        v1 = U[o1[0]][0]
        Tb = mk_tx([(oref(o1[0]), K[1])], [(v1 - 50, K[0])])
        _blk(P, [T_over, Tb], 'overspend-hidden-by-other-fee', out, cb_outs=[(sub, M)])
        # the overspender NOT first: a running balance over the block's transactions would let the fee paid ahead of it cover it
        _blk(P, [Tb, T_over], 'overspend-after-fee-paying-tx', out, cb_outs=[(sub, M)])
        _blk(P, [Tb, T_over], 'overspend-after-fee-paying-tx-reward-net', out, cb_outs=[(sub + 49, M)])
        T_over50 = mk_tx([(o_ref, K[0])], [(v + 50, K[1])])
        _blk(P, [Tb, T_over50], 'overspend-equal-to-fee-ahead', out, cb_outs=[(sub, M)])
        _blk(P, [T0, Tb], 'two-fees-exact', out, control=True, cb_outs=[(sub + fee + 50, M)])
        # the same output spent by the first and the third transaction, the reward claiming the fees of all three
        T0c = mk_tx([(o_ref, K[0])], [(v - 2 * fee, K[2])])
        _blk(P, [T0, Tb, T0c], 'output-spent-by-first-and-third-tx-fees-claimed', out, cb_outs=[(sub + fee + 50 + 2 * fee, M)])
        _blk(P, [T0c, Tb, T0], 'output-spent-by-third-and-first-tx-fees-claimed', out, cb_outs=[(sub + fee + 50 + 2 * fee, M)])
        _blk(P, [T0, Tb], 'two-fees-plus-1', out, cb_outs=[(sub + fee + 51, M)])
        _blk(P, [mk_tx([(o_ref, K[0]), (oref(o1[0]), K[1])], [(v + v1 + 1, K[2])])], 'overspend-2in-by-1', out)
    # ---- value ranges of ordinary outputs
    for val, nm in ((0, '0'), (MAXS + 1, 'max+1'), (2**63, '2^63'), (2**64 - 1, '2^64-1')):
        try:
            t = mk_tx([(o_ref, K[0])], [(COIN, K[1]), (val, K[2])])
        except Exception:
            continue
        _blk(P, [t], 'output-value-%s' % nm, out)
    # the same boundary values at other positions of a three-output list (and a total over the limit made of admissible parts)
    for pos in (1, 2):
        for val, nm in ((0, '0'), (MAXS + 1, 'max+1')):
            outs3 = [(COIN // 2, K[1]), (COIN // 3, K[2]), (5, K[0])]
            outs3[pos] = (val, outs3[pos][1])
            try:
                _blk(P, [mk_tx([(o_ref, K[0])], outs3)], 'output-value-%s-at-position-%d' % (nm, pos), out)
            except Exception:
                pass
    _blk(P, [mk_tx([(o_ref, K[0])], [(MAXS // 2, K[1]), (MAXS // 2, K[2]), (MAXS // 2, K[0])])], 'three-outputs-half-max-each', out)
    _blk(P, [mk_tx([(o_ref, K[0])], [(1, K[1])])], 'output-value-1', out, control=True)
    _blk(P, [mk_tx([(o_ref, K[0])], [(MAXS, K[1])])], 'output-value-max-unfunded', out)
    _blk(P, [mk_tx([(o_ref, K[0])], [(MAXS, K[1]), (MAXS, K[2])])], 'two-outputs-max-each', out)
    _blk(P, [mk_tx([(o_ref, K[0])], [(2**64 - 1, K[1]), (2, K[2])])], 'wrap-outputs', out)
    _blk(P, [mk_tx([(o_ref, K[0])], [(0, K[1])])], 'only-output-zero', out)
    _blk(P, [Transaction([Input(o_ref, T0.inputs[0].signature)], [])], 'no-outputs', out)
    _blk(P, [mk_tx([], [(5, K[1])])], 'no-inputs', out)
    # ---- structure of the reward transaction
    cb = world.coinbase_tx(h, [(sub, M)])
    _blk(P, [], 'no-reward-tx', out, all_txs=[T0])
    _blk(P, [], 'no-transactions', out, all_txs=[], merkle=NULL32)
    _blk(P, [], 'two-reward-txs', out, all_txs=[cb, world.coinbase_tx(h, [(sub, K[5])], b'2')])
    _blk(P, [], 'reward-not-first', out, all_txs=[T0, cb])
    nul = OutputReference(NULL32, 0)
    _blk(P, [], 'reward-two-null-inputs', out, all_txs=[Transaction(
        [Input(nul, CoinbaseData(h, b'')), Input(nul, CoinbaseData(h, b'b'))], [Output(sub, M.pk)])])
    _blk(P, [], 'reward-null-plus-real-input', out, all_txs=[Transaction(
        [Input(nul, CoinbaseData(h, b'')), Input(o_ref, T0.inputs[0].signature)], [Output(sub + v, M.pk)])])
    _blk(P, [], 'reward-zero-inputs', out, all_txs=[Transaction([], [Output(sub, M.pk)])])
    _blk(P, [], 'reward-real-reference', out, all_txs=[Transaction([Input(o_ref, CoinbaseData(h, b''))], [Output(sub, M.pk)])])
    _blk(P, [], 'reward-null-ref-index-1', out, all_txs=[Transaction([Input(OutputReference(NULL32, 1), CoinbaseData(h, b''))], [Output(sub, M.pk)])])
    _blk(P, [], 'reward-real-signature', out, all_txs=[Transaction([Input(nul, T0.inputs[0].signature)], [Output(sub, M.pk)])])
    _blk(P, [], 'reward-data-200', out, control=True, cb_tx=world.coinbase_tx(h, [(sub, M)], b'd' * 200))
    _blk(P, [], 'reward-data-201', out, cb_tx=world.coinbase_tx(h, [(sub, M)], b'd' * 201))
    # ---- a three-step sequence (candidates are offered in list order): a block with a large fee is validated, the
    #      low-fee list L is offered on an ancestor where its input does not exist yet (refused somewhere inside the
    #      fee computation), then L is offered where it belongs with a reward claiming more than its own fees
    Q = P.parent
    while Q is not None and o in Q.utxo:
        Q = Q.parent
    if Q is not None and v > 10 * fee + 10:
        big = v // 2
        Thigh = mk_tx([(o_ref, K[0])], [(v - big, K[1])])
        _blk(P, [Thigh], 'seq-1-high-fee-block', out, control=True, cb_outs=[(sub + big, M)])
        n0 = len(out)
        _blk(Q, [T0], 'seq-2-list-on-ancestor-lacking-its-input', out, cb_outs=[(refmodel.subsidy(Q.height + 1), M)], ts=P.ts + 120)
        if len(out) > n0:
            _blk(P, [T0], 'seq-3-reward-claims-more-than-own-fees', out, cb_outs=[(sub + fee + fee, M)])
            _blk(P, [T0], 'seq-3b-reward-claims-earlier-blocks-fees', out, cb_outs=[(sub + big, M)])
    return [c for c in out if c.name != 'x']


def flip(b, i):
    return b[:i] + bytes([b[i] ^ 1]) + b[i + 1:]


def c05_candidates(P, uni, nows=True):
    out = []
    h = P.height + 1
    ts = P.ts + 120
    tgt = refmodel.expected_target(P, h, ts)
    ti = int.from_bytes(tgt, 'big')
    _blk(P, [], 'ok', out, control=True)
    _blk(P, [], 'ok-wire-time+1', out, control=True, ts=P.ts + 1)
    if ti < refmodel.MAX256 - 2**200:
        _blk(P, [], 'id-not-below-target', out, pow_ok=False)
    # ---- target
    boundary = (h % refmodel.PERIOD == 0)
    if boundary:
        if P.block.header.summary.target != tgt:
            _blk(P, [], 'boundary-keeps-old-target', out, target=P.block.header.summary.target)
        for dts, nm in ((1, 'ts+1'), (10**5, 'ts+1e5')):
            # other block times at a boundary give other targets: each consistent with itself
            _blk(P, [], 'ok-boundary-%s' % nm, out, control=True, ts=P.ts + dts)
        # target computed for another block time than the one stated
        t_other = refmodel.expected_target(P, h, ts + 60)
        if t_other != tgt:
            _blk(P, [], 'boundary-target-of-other-time', out, target=t_other)
        # target computed from the wrong start block (off by one in either direction)
        for off, nm in ((1, 'start+1'), (-1, 'start-1')):
            sh = h - refmodel.PERIOD + off
            if 0 <= sh <= P.height:
                el = ts - P.anc(sh).ts
                t2 = refmodel.new_target(int.from_bytes(P.block.header.summary.target, 'big'), el).to_bytes(32, 'big')
                if t2 != tgt:
                    _blk(P, [], 'boundary-target-from-%s' % nm, out, target=t2)
    else:
        start_h = (h // refmodel.PERIOD) * refmodel.PERIOD
        if start_h <= P.height:
            el = ts - P.anc(start_h).ts
            t2 = refmodel.new_target(ti, el).to_bytes(32, 'big')
            if t2 != tgt and int.from_bytes(t2, 'big') * 64 > ti:      # (else the nonce search is infeasible)
                _blk(P, [], 'retarget-inside-period', out, target=t2)
    if ti < refmodel.MAX256:
        _blk(P, [], 'target-plus-1', out, target=(ti + 1).to_bytes(32, 'big'))
    if ti > 2**200:
        _blk(P, [], 'target-minus-1', out, target=(ti - 1).to_bytes(32, 'big'))
        _blk(P, [], 'target-halved', out, target=(ti // 2).to_bytes(32, 'big'))
    if ti <= refmodel.MAX256 // 2:
        _blk(P, [], 'target-doubled', out, target=(ti * 2).to_bytes(32, 'big'))
    _blk(P, [], 'target-max', out, target=b'\xff' * 32) if ti != refmodel.MAX256 else None
    # ---- height
    for dh, nm in ((0, 'parent+0'), (2, 'parent+2')):
        _blk(P, [], 'height-%s-reward-matching' % nm, out, height=P.height + dh)
        _blk(P, [], 'height-%s-reward-true' % nm, out, height=P.height + dh, cb_height=h)
    _blk(P, [], 'reward-height-parent', out, cb_height=P.height)
    _blk(P, [], 'reward-height-plus-1', out, cb_height=h + 1)
    _blk(P, [], 'reward-height-0', out, cb_height=0) if h != 0 else None
    # ---- time
    _blk(P, [], 'time-equals-parent', out, ts=P.ts)
    _blk(P, [], 'time-parent-minus-1', out, ts=P.ts - 1)
    if P.parent is not None:
        _blk(P, [], 'time-equals-grandparent', out, ts=P.parent.ts)
    _blk(P, [], 'ok-time-now+30', out, control=True, ts=ts, now=ts - 30)
    _blk(P, [], 'time-now+31', out, ts=ts, now=ts - 31)
    _blk(P, [], 'time-far-future', out, ts=ts, now=ts - 7200)
    # ---- evidence
    _blk(P, [], 'evidence-summary-hash-bit', out, evid=lambda a, b, c: (flip(a, 0), b, c))
    _blk(P, [], 'evidence-summary-hash-lastbit', out, evid=lambda a, b, c: (flip(a, 31), b, c))
    _blk(P, [], 'evidence-chain-sample-bit', out, evid=lambda a, b, c: (a, flip(b, 5), c))
    _blk(P, [], 'evidence-chain-sample-lastbit', out, evid=lambda a, b, c: (a, flip(b, 31), c))
    _blk(P, [], 'evidence-block-hash-bit', out, evid=lambda a, b, c: (a, b, flip(c, 17)))
    _blk(P, [], 'evidence-all-zero', out, evid=lambda a, b, c: (b'\x00' * 32, b'\x00' * 32, b'\x00' * 32))
    cb_alt = world.coinbase_tx(h, [(refmodel.subsidy(h), K[5])], b'alt')
    _blk(P, [], 'evidence-of-other-tx-list', out, evid_txs=[cb_alt])
    if P.parent is not None:
        _blk(P, [], 'evidence-of-other-parent', out, evid_parent=P.parent, evid_height=h)
        sib = None
        for lab in uni.sibling_labels if hasattr(uni, 'sibling_labels') else ():
            q = uni.get(P.path[:-1] + (lab,))
            if q is not None and q is not P:
                sib = q
                break
        if sib is not None:
            _blk(P, [], 'evidence-sampled-from-sibling-chain', out, evid_parent=sib)
    _blk(P, [], 'evidence-for-height+1', out, evid_height=h + 1)
    # evidence computed for another nonce: assemble with nonce0 offset then transplant
    try:
        b1 = assemble(P, [], K[4], ts, cb_outs=[(refmodel.subsidy(h), K[4])])
        b2 = assemble(P, [], K[4], ts, cb_outs=[(refmodel.subsidy(h), K[4])], nonce0=b1.header.summary.nonce + 1)
        ev2 = b2.header.pow_evidence
        _blk(P, [], 'evidence-of-other-nonce', out, evid=lambda a, b, c: (ev2.summary_hash, ev2.chain_sample, ev2.block_hash))
    except Exception:
        pass
    # ---- parent
    _blk(P, [], 'unknown-parent', out, prev=enc.sha256d(b'unknown parent'))
    return [c for c in out if c is not None]


def c05_state_candidates(P, head):
    """state dependent: at a retarget boundary, the target computed from the *head's* chain instead of the block's own
    ancestors (differs when the period's first block is on the other side of a fork)"""
    out = []
    h = P.height + 1
    if h % refmodel.PERIOD != 0 or head is P:
        return out
    sh = h - refmodel.PERIOD
    if sh > head.height or sh > P.height or head.anc(sh) is P.anc(sh):
        return out
    ts = P.ts + 120
    el = ts - head.anc(sh).ts
    if el <= 0:
        return out
    t2 = refmodel.new_target(int.from_bytes(P.block.header.summary.target, 'big'), el).to_bytes(32, 'big')
    if t2 != refmodel.expected_target(P, h, ts):
        _blk(P, [], 'boundary-target-from-head-chain', out, target=t2)
    return out
