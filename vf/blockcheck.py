"""Generic worker for C01 / C02 / C05: every candidate of an alphabet offered to CoinState.add_block on every
stored parent of every explored state; lock-step comparison with the reference validator."""
from . import cands, ledger, refmodel, world


class Config:
    def __init__(self, name, make_universe, families, prop_tags, check_unchanged, now_slack=0, both_forms=False,
                 setup=None, conservation=False, own_assembly=False, horizon='head'):
        self.name = name
        self.make_universe = make_universe
        self.families = families
        self.prop_tags = prop_tags
        self.check_unchanged = check_unchanged
        self.both_forms = both_forms
        self.setup = setup
        self.conservation = conservation
        self.own_assembly = own_assembly
        # 'head' / 'all' / None: parents at which the candidates are offered once more with the checkpoint horizon AT the parent
        self.horizon = horizon


_cand_cache = {}


def candidates_for(cfg, uni, P):
    k = (cfg.name, uni.uid, uni.root.bid, P.path)
    c = _cand_cache.get(k)
    if c is None:
        c = []
        for fam in cfg.families:
            c += fam(P, uni)
        _cand_cache[k] = c
    return c


def total(utxo):
    return sum(v for v, _ in utxo.values())


def run_histories(cfg, uni, hists, now_build):
    out = []
    hist_stats = {}
    st = {'states': 0, 'transitions': 0, 'accepted': 0, 'rejected': 0, 'controls_accepted': 0,
          'controls_rejected': 0, 'unchanged_checks': 0, 'accepted_other_property': 0}
    for hist in hists:
        try:
            cs, fc = ledger.build(uni, hist, now_build, True)
        except Exception as e:
            # the implementation refuses a reference-valid history: not what these properties state; keep going on
            # the same state obtained through the unvalidated (reload) entry point so the check does not go vacuous
            st['valid_history_refused'] = st.get('valid_history_refused', 0) + 1
            try:
                cs, fc = ledger.build(uni, hist, now_build, False)
            except Exception:
                continue
        st['states'] += 1
        stored = [uni.root] + [uni.get(p) for p in hist]
        head = fc.head()
        fp0 = ledger.fingerprint(cs, balances=False) if cfg.check_unchanged else None
        if cfg.conservation:
            # value conservation at every stored block of the state, from the implementation's own unspent sets
            cum = {}
            for n in stored:
                try:
                    tot = total(ledger.utxo_view(cs.unspent_transaction_outs_by_hash[n.bid]))
                except Exception:
                    continue
                cum[n.path] = (cum[n.parent.path] if n.parent is not None else 0) + refmodel.subsidy(n.height)
                ptot = total(ledger.utxo_view(cs.unspent_transaction_outs_by_hash[n.parent.bid])) if n.parent else 0
                if tot > ptot + refmodel.subsidy(n.height) or tot > cum[n.path] or tot > refmodel.MAX_SASHIMI:
                    out.append(('conservation', "unspent total at %s is %d, parent %d + subsidy %d" % (
                        n.path, tot, ptot, refmodel.subsidy(n.height)), hist, n.path, None))
        for P in stored:
            cl = list(candidates_for(cfg, uni, P))
            if cfg.name == 'C01':
                cl += cands.c01_state_candidates(P, head)
            if cfg.name == 'C05':
                cl += cands.c05_state_candidates(P, head)
            for c in cl:
                forms = [('wire', c.wire())]
                if forms[0][1] is None or cfg.both_forms:
                    forms.append(('mem', c.block))
                for fname, blk in forms:
                    if blk is None:
                        continue
                    st['transitions'] += 1
                    hs = hist_stats.setdefault(c.name, [0, 0])
                    try:
                        cs2 = cs.add_block(blk, c.now)
                        accepted = True
                    except Exception:
                        accepted = False
                    if not accepted:
                        st['rejected'] += 1
                        hs[1] += 1
                        if c.control:
                            st['controls_rejected'] += 1
                        if cfg.check_unchanged:
                            st['unchanged_checks'] += 1
                            if ledger.fingerprint(cs, balances=False) != fp0:
                                out.append(('state-changed-by-rejected-block', "rejected candidate %s on %s altered the "
                                            "chain state held before the attempt" % (c.name, P.path), hist, P.path, c.name))
                                fp0 = ledger.fingerprint(cs, balances=False)
                        continue
                    st['accepted'] += 1
                    hs[0] += 1
                    tags = c.tags()
                    if c.control and not tags:
                        st['controls_accepted'] += 1
                    bad = tags & cfg.prop_tags
                    if bad:
                        out.append(('accepted-' + c.name, "block '%s' (%s form) on parent %s accepted although it breaks: %s"
                                    % (c.name, fname, '/'.join(map(str, P.path)) or '<root>', sorted(bad)),
                                    hist, P.path, c.name))
                        continue
                    if tags:
                        st['accepted_other_property'] += 1
                        if cfg.conservation:
                            # whatever rule of another property the block breaks: the value it leaves behind is C02's own clause
                            try:
                                got = ledger.utxo_view(cs2.unspent_transaction_outs_by_hash[refmodel.enc.blockid(blk)])
                                if total(got) > total(P.utxo) + refmodel.subsidy(P.height + 1):
                                    out.append(('conservation', "accepting %s on %s raises the unspent total by %d, the subsidy is %d" % (
                                        c.name, P.path, total(got) - total(P.utxo), refmodel.subsidy(P.height + 1)), hist, P.path, c.name))
                            except Exception:
                                pass
                        continue
                    # accepted and reference-valid: resulting state must match the reference ledger
                    try:
                        bid = refmodel.enc.blockid(blk)
                        got = ledger.utxo_view(cs2.unspent_transaction_outs_by_hash[bid])
                        exp = refmodel.apply_block(P.utxo, blk)
                        if cfg.name in ('C01', 'C02') and got != exp:
                            out.append(('accepted-state-mismatch', "after accepting %s on %s the unspent set differs from "
                                        "the reference" % (c.name, P.path), hist, P.path, c.name))
                        if cfg.conservation and total(got) > total(P.utxo) + refmodel.subsidy(P.height + 1):
                            out.append(('conservation', "accepting %s on %s raises the unspent total by more than the "
                                        "subsidy" % (c.name, P.path), hist, P.path, c.name))
                    except Exception as e:
                        out.append(('accepted-state-mismatch', "state after accepting %s unreadable: %r" % (c.name, e),
                                    hist, P.path, c.name))
            if cfg.horizon == 'all' or (cfg.horizon == 'head' and P is head):
                horizon_pass(cfg, cs, P, cl, hist, st, out)
        if cfg.own_assembly:
            own_assembly(cfg, uni, cs, head, hist, st, out)
        if len(out) > 60:
            break
    return st, out[:60], hist_stats


def horizon_pass(cfg, cs, P, cl, hist, st, out):
    """the same candidates with the checkpoint horizon (a scaled stand-in for the shipped 163,000, no checkpoint ids) at the
    parent's height: every candidate sits just ABOVE the horizon whatever height it states, so full validation is due and
    the reference verdict is the same as without a horizon"""
    from skepticoin import consensus
    saved = consensus.MAX_KNOWN_HASH_HEIGHT
    consensus.MAX_KNOWN_HASH_HEIGHT = P.height
    try:
        for c in cl:
            blk = c.wire() or c.block
            if blk is None:
                continue
            st['transitions'] += 1
            st['offered_just_above_a_horizon'] = st.get('offered_just_above_a_horizon', 0) + 1
            try:
                cs.add_block(blk, c.now)
            except Exception:
                continue
            bad = c.tags() & cfg.prop_tags
            if bad:
                try:
                    lying = blk.header.summary.height <= P.height
                except Exception:
                    lying = False
                out.append(('stated-height-below-horizon-skips-validation' if lying else 'accepted-just-above-horizon:' + c.name,
                            "block '%s' on parent %s (height %d) accepted with the checkpoint horizon at height %d although it "
                            "breaks: %s%s" % (c.name, '/'.join(map(str, P.path)) or '<root>', P.height, P.height, sorted(bad),
                                              "; it STATES height %d, i.e. one at or below the horizon" % blk.header.summary.height
                                              if lying else ''), hist, P.path, c.name))
    finally:
        consensus.MAX_KNOWN_HASH_HEIGHT = saved


def own_assembly(cfg, uni, cs, head, hist, st, out):
    """C05, last sentence: every block the node's own assembly produces on a valid chain passes once id < target"""
    from skepticoin import consensus
    for off in (-29, 0, 1, 120, 100000):
        clock = head.ts + off
        ts = max(clock, head.ts + 1)
        if ts > clock + 30:
            continue
        blk = None
        for nonce in range(0, 5000):
            try:
                b = consensus.construct_block_for_mining(cs, [], world.K[4].pk, ts, b'vf', nonce)
            except Exception as e:
                out.append(('own-assembly-raises', "construct_block_for_mining raises %r at clock offset %d" % (e, off),
                            hist, head.path, 'own%+d' % off))
                break
            if b.hash() < b.target:
                blk = b
                break
        if blk is None:
            continue
        st['own_assembled'] = st.get('own_assembled', 0) + 1
        st['transitions'] += 1
        try:
            cs.add_block(blk, clock)
        except Exception as e:
            tags = refmodel.validate_block(blk, head, clock)
            out.append(('own-assembly-rejected', "block assembled by the node on %s at clock offset %+d is rejected by its "
                        "own validation: %r (reference: %s)" % (head.path, off, e, sorted(tags) or 'valid'),
                        hist, head.path, 'own%+d' % off))
            continue
        tags = refmodel.validate_block(blk, head, clock)
        if tags & cfg.prop_tags:
            out.append(('own-assembly-invalid', "block assembled by the node on %s breaks %s" % (head.path, sorted(tags)),
                        hist, head.path, 'own%+d' % off))


def merge(ctx, results, prop, uni_name=''):
    tot = {}
    hist_stats = {}
    for r in results:
        st, out, hs = r[:3]
        uni_name = r[3] if len(r) > 3 else uni_name
        for k, v in st.items():
            tot[k] = tot.get(k, 0) + v
        for k, v in hs.items():
            e = hist_stats.setdefault(k, [0, 0])
            e[0] += v[0]
            e[1] += v[1]
        for key, what, hist, ppath, cname in out:
            ctx.violation(key, "%s; state history %s" % (what, ledger.hist_str(hist)),
                          {'uni': uni_name, 'hist': [list(p) for p in hist], 'parent': list(ppath), 'cand': cname})
    return tot, hist_stats
