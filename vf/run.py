"""Runner: python -m vf.run <ID> --tier quick|thorough [--replay FILE]
Exit 0 = property held on everything explored (KNOWN-FINDING lines possible); 1 = VIOLATION; 2 = harness error."""
import argparse
import hashlib
import importlib
import json
import multiprocessing
import os
import sys
import time
import traceback

HOME = os.environ.get('VERIF_HOME', '/verif')


class Ctx:
    def __init__(self, pid, tier, seed):
        self.pid = pid
        self.tier = tier
        self.quick = tier == 'quick'
        self.seed = seed
        self.cov = {}
        self.assumptions = []
        self.violations = {}     # key -> dict(what, replay)
        self.vcount = 0
        self.notes = []
        self.ncpu = int(os.environ.get('VERIF_CPUS', os.cpu_count() or 4))
        self.t0 = time.time()

    def violation(self, key, what, replay):
        """key: structured signature of the failure (used for de-duplication and known-findings matching)"""
        if key == 'harness':
            # a sub-scenario could not establish its precondition on this tree (e.g. the tree refuses what the scenario needs
            # first): that part is vacuous here, which is neither a violation of the property nor an error of the whole check
            self.cov['scenario_preconditions_not_established'] = self.cov.get('scenario_preconditions_not_established', 0) + 1
            if len(self.notes) < 6:
                self.notes.append("vacuity: a scenario's precondition was not established: %s" % what)
            return
        self.vcount += 1
        sz = len(repr(replay))
        if key not in self.violations or sz < self.violations[key]['size']:
            self.violations[key] = {'what': what, 'replay': replay, 'size': sz}   # keep the smallest witness

    def merge_violations(self, lst):
        for key, what, replay in lst:
            self.violation(key, what, replay)

    def add(self, name, n=1):
        self.cov[name] = self.cov.get(name, 0) + n

    def pmap(self, func, items, chunksize=1):
        items = list(items)
        if self.ncpu <= 1 or len(items) <= 1:
            return [func(i) for i in items]
        # every job runs in a fresh fork of this process (maxtasksperchild=1, one item per task): whatever process-level
        # state the code under test keeps (caches, module globals) starts from the parent's state for every job, so a
        # complete run is a deterministic function of (tree, tier, seed) however the pool schedules the jobs
        njobs = min(len(items), self.ncpu * 6)
        chunks = [items[i::njobs] for i in range(njobs)]       # deterministic partition, independent of pool timing
        parts = _fork_map(func, chunks, min(self.ncpu, njobs))
        out = [None] * len(items)
        for i, part in enumerate(parts):
            out[i::njobs] = part
        return out

    def log(self, *a):
        print("[%s %.1fs]" % (self.pid, time.time() - self.t0), *a, file=sys.stderr, flush=True)


def _run_chunk(arg):
    func, chunk = arg
    return [func(x) for x in chunk]


def _fork_map(func, chunks, nproc):
    """[[func(x) for x in chunk] for chunk in chunks], every chunk in its own fork of this process, at most nproc at a time.
    Plain fork + pipe + select from the (single-threaded) caller: multiprocessing.Pool with maxtasksperchild forks
    replacement workers from a helper THREAD, and a child forked while another thread holds one of the pool's locks waits
    for ever (seen as an occasional run in which every worker idles)"""
    import pickle
    import select
    results = [None] * len(chunks)
    pending = list(enumerate(chunks))
    running = {}
    failure = None
    try:
        while pending or running:
            while pending and len(running) < nproc and failure is None:
                idx, chunk = pending.pop(0)
                rfd, wfd = os.pipe()
                sys.stdout.flush()
                sys.stderr.flush()
                pid = os.fork()
                if pid == 0:
                    code = 0
                    try:
                        os.close(rfd)
                        for fd in list(running):
                            try:
                                os.close(fd)
                            except OSError:
                                pass
                        try:
                            payload = pickle.dumps(('ok', _run_chunk((func, chunk))))
                        except BaseException:
                            payload = pickle.dumps(('err', traceback.format_exc()))
                        with os.fdopen(wfd, 'wb') as f:
                            f.write(payload)
                        sys.stdout.flush()
                        sys.stderr.flush()
                    except BaseException:
                        code = 1
                    finally:
                        os._exit(code)
                os.close(wfd)
                running[rfd] = [idx, pid, []]
            if not running:
                break
            for fd in select.select(list(running), [], [])[0]:
                data = os.read(fd, 1 << 20)
                if data:
                    running[fd][2].append(data)
                    continue
                idx, pid, buf = running.pop(fd)
                os.close(fd)
                os.waitpid(pid, 0)
                try:
                    kind, val = pickle.loads(b''.join(buf))
                except Exception:
                    kind, val = 'err', 'worker %d died without a result' % pid
                if kind == 'ok':
                    results[idx] = val
                elif failure is None:
                    failure = val
                    pending = []
    finally:
        for fd, (idx, pid, buf) in list(running.items()):
            try:
                os.kill(pid, 9)
                os.waitpid(pid, 0)
                os.close(fd)
            except OSError:
                pass
    if failure is not None:
        raise RuntimeError("worker failed:\n" + failure)
    return results


def load_known():
    p = os.path.join(HOME, 'known_findings.json')
    if not os.path.exists(p):
        return []
    return json.load(open(p))['findings']


def jsonable(x):
    if isinstance(x, bytes):
        return x.hex()
    if isinstance(x, dict):
        return {str(k) if not isinstance(k, str) else k: jsonable(v) for k, v in x.items()}
    if isinstance(x, (list, tuple, set, frozenset)):
        return [jsonable(v) for v in (sorted(x, key=repr) if isinstance(x, (set, frozenset)) else x)]
    if isinstance(x, (int, float, str, bool)) or x is None:
        return x
    return repr(x)


def check_evidence_shape(ev):
    """the part of EVIDENCE.schema.json that matters, checked without jsonschema (not in /venv)"""
    for k in ('property_id', 'tier', 'seed', 'level', 'coverage', 'wall_s'):
        assert k in ev, k
    c = ev['coverage']
    lvl = ev['level']
    if lvl in ('exploration', 'fault_enumeration'):
        assert c['evaluations'] >= 1 and c['distinct_nontrivial'] >= 2 and isinstance(c['rule'], str) and c['samples']
    if lvl == 'model_checking':
        assert c['states'] >= 1 and c['transitions'] >= 1 and c['traces_validated_against_impl'] >= 0 and c['samples']


def _debug_hooks():
    # `kill -USR1 <pid>` makes any runner / worker process dump the stacks of all its threads to stderr
    try:
        import faulthandler
        import signal
        path = os.environ.get('VERIF_STACKS')
        faulthandler.register(signal.SIGUSR1, file=(open(path, 'a') if path else sys.__stderr__), all_threads=True, chain=False)
    except Exception:
        pass


def main():
    _debug_hooks()
    ap = argparse.ArgumentParser()
    ap.add_argument('pid')
    ap.add_argument('--tier', default=os.environ.get('VERIF_TIER', 'quick'), choices=['quick', 'thorough'])
    ap.add_argument('--replay')
    ap.add_argument('--no-evidence', action='store_true')
    args = ap.parse_args()
    pid = args.pid.upper()
    seed = int(os.environ.get('VERIF_SEED', '0') or 0)
    from . import seams
    seams.quiet_logging()
    import contextlib
    with contextlib.redirect_stdout(sys.stderr):
        import skepticoin.blockstore   # noqa: prints and creates chain.db in the scratch cwd at import time
    try:
        mod = importlib.import_module('vf.props.' + pid.lower())
    except ModuleNotFoundError as e:
        if e.name and e.name.startswith('vf.props'):
            print("no check for %s" % pid, file=sys.stderr)
            return 2
        raise
    ctx = Ctx(pid, args.tier, seed)

    if args.replay:
        data = json.load(open(args.replay))
        if isinstance(data['replay'], dict) and data['replay'].get('rerun_whole_check'):
            import subprocess
            r = subprocess.run([sys.executable, '-m', 'vf.run', pid, '--tier', args.tier, '--no-evidence'],
                               env=dict(os.environ, VERIF_CONFIRM_RUN='1'), capture_output=True, text=True)
            res = [(data['key'], 'found again by a complete run')] if ('FOUND key=' + data['key']) in r.stdout.splitlines() else []
        else:
            res = mod.replay(data['replay'], ctx)
        if res:
            for key, what in res:
                print("REPLAY reproduces: key=%s %s" % (key, what))
            print("VIOLATION property=%s replay=%s" % (pid, args.replay))
            return 1
        print("REPLAY: no violation reproduced")
        return 0

    real_stdout = sys.stdout
    sys.stdout = sys.stderr          # whatever the code under test prints must not reach the verdict channel
    try:
        mod.run(ctx)
    except seams.HarnessError as e:
        sys.stdout = real_stdout
        print("HARNESS-ERROR %s: %s" % (pid, e), file=sys.stderr)
        traceback.print_exc()
        return 2
    wall = time.time() - ctx.t0

    if os.environ.get('VERIF_CONFIRM_RUN'):
        # second, complete run started by the confirmation step below: just say what was found
        sys.stdout = real_stdout
        for key in sorted(ctx.violations):
            print("FOUND key=%s" % key)
        return 0
    known = {(k['property'], k['key']): k for k in load_known() if k.get('status') == 'known'}
    rerun_keys = None
    rc = 0
    out_lines = []
    nviol_new = 0
    os.makedirs(os.path.join(HOME, 'replays'), exist_ok=True)
    for n, (key, v) in enumerate(sorted(ctx.violations.items())):
        if n >= 12:
            out_lines.append("(further %d violation keys not replayed)" % (len(ctx.violations) - n))
            break
        # confirm twice by deterministic replay, outside the explorer
        conf = []
        for _ in range(2):
            try:
                r = mod.replay(v['replay'], ctx)
            except Exception:
                traceback.print_exc()
                r = None
            conf.append(sorted(k for k, _ in r) if r is not None else None)
        if conf[0] != conf[1] or conf[0] is None or key not in conf[0]:
            # The isolated replay does not show it.  Either the harness is non-deterministic (a harness error), or the
            # failure depends on what the implementation did earlier in the same process (hidden state such as a cache).
            # Decide by a second complete run in a fresh process: complete runs are deterministic (see Ctx.pmap).
            if rerun_keys is None:
                import subprocess
                env = dict(os.environ, VERIF_CONFIRM_RUN='1')
                dbg = os.environ.get('VERIF_CONFIRM_STDERR')
                r = subprocess.run([sys.executable, '-m', 'vf.run', pid, '--tier', args.tier, '--no-evidence'], env=env,
                                   stdout=subprocess.PIPE, stderr=(open(dbg, 'a') if dbg else subprocess.PIPE), text=True)
                rerun_keys = {l[len('FOUND key='):] for l in r.stdout.splitlines() if l.startswith('FOUND key=')}
            if key not in rerun_keys:
                print("HARNESS-ERROR %s: violation %s reproduced neither by its isolated replay (%r) nor by a second complete "
                      "run" % (pid, key, conf), file=sys.stderr)
                print("  what: %s" % v['what'], file=sys.stderr)
                return 2
            v['what'] += "  [reproduced by a second complete run in a fresh process, not by the isolated replay: the failure " \
                         "depends on operations performed earlier in the same process]"
            v['replay'] = {'rerun_whole_check': True, 'key': key, 'isolated': v['replay']}
        if (pid, key) in known:
            out_lines.append("KNOWN-FINDING: property=%s %s [%s]" % (pid, known[(pid, key)]['what'], key))
            continue
        nviol_new += 1
        digest = hashlib.sha1(key.encode()).hexdigest()[:10]
        path = os.path.join(HOME, 'replays', '%s-%s.json' % (pid, digest))
        with open(path, 'w') as f:
            json.dump(jsonable({'property': pid, 'key': key, 'what': v['what'], 'replay': v['replay'],
                                'replay_cmd': './check %s --replay %s' % (pid, path)}), f, indent=1)
        out_lines.append("VIOLATION property=%s replay=%s" % (pid, path))
        out_lines.append("  key=%s :: %s" % (key, v['what']))
        rc = 1

    if rc == 0 and ctx.cov.get('thread_replay_divergences'):
        # no violation found, but part of the schedule space could not be enumerated soundly: not a clean verdict
        print("HARNESS-ERROR %s: %d thread-schedule prefixes did not replay deterministically (the code under test keeps state "
              "across executions) and nothing else was found" % (pid, ctx.cov['thread_replay_divergences']), file=sys.stderr)
        return 2
    cov = dict(ctx.cov)
    ev = {
        'property_id': pid, 'tier': args.tier, 'seed': seed, 'level': mod.LEVEL,
        'coverage': jsonable(cov), 'assumptions': ctx.assumptions + [
            'seams installed: ' + ', '.join(seams.INSTALLED) if seams.INSTALLED else 'no seams installed'],
        'wall_s': round(wall, 2), 'violations': nviol_new,
    }
    try:
        check_evidence_shape(ev)
    except Exception:
        # e.g. a changed tree that refuses every control: the run is vacuous, which is not a violation of the property
        # and not an alarm; the (schema-invalid) evidence is still written so that the vacuity is on record
        print("WARNING %s: vacuous / incomplete evidence (nothing non-trivial was explored)" % pid, file=sys.stderr)
    if not args.no_evidence:
        os.makedirs(os.path.join(HOME, 'evidence'), exist_ok=True)
        with open(os.path.join(HOME, 'evidence', pid + '.json'), 'w') as f:
            json.dump(ev, f, indent=1, sort_keys=True)
            f.write("\n")
    sys.stdout = real_stdout
    for line in out_lines:
        print(line)
    for nline in ctx.notes:
        print("NOTE:", nline, file=sys.stderr)
    print("%s %s: %s in %.1fs  %s" % (pid, args.tier, "OK" if rc == 0 else "VIOLATIONS", wall, json.dumps(
        {k: v for k, v in jsonable(cov).items() if isinstance(v, (int, float, bool))})), file=sys.stderr)
    return rc


if __name__ == '__main__':
    try:
        rc = main()
    except SystemExit:
        raise
    except Exception:
        traceback.print_exc()
        rc = 2
    sys.stdout.flush()
    sys.exit(rc)
