"""The node's MinerWatcher without its constructor (which starts processes and a networking thread): the harness plays the
miner processes by calling the two message handlers."""


class Q:
    """stands in for the multiprocessing queue towards one miner process"""

    def __init__(self):
        self.items = []

    def put(self, x):
        self.items.append(x)


def make_watcher(node, coinstate, keys, nminers=1):
    """a real MinerWatcher bound to the SimNode's LocalPeer; `keys` become the wallet's (unused) keys.  The caller must have
    rebound mining.time to the virtual clock and chdir'ed to a private directory (the watcher saves wallet.json)"""
    import datetime
    from decimal import Decimal
    from skepticoin import mining
    from skepticoin.wallet import Wallet
    mw = mining.MinerWatcher.__new__(mining.MinerWatcher)
    mw.wallet = Wallet({k.pub: k.priv for k in keys}, [k.pub for k in keys], {})
    mw.coinstate = coinstate
    mw.mining_args = {}
    mw.hash_stats = {}
    mw.send_queues = [Q() for _ in range(nminers)]
    mw.log_silencer = []
    mw.balance = Decimal(0)
    mw.start_balance = Decimal(0)
    mw.start_time = datetime.datetime(2020, 1, 1)
    mw.args = type('Args', (), {'quiet': True})()
    mw.network_thread = type('NT', (), {'local_peer': node.lp})()
    mw.public_key = mw.wallet.get_annotated_public_key("reserved for potentially mined block")
    return mw
