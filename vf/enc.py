"""Reference encoders and hash functions, written against the documented wire format and
NOT calling any serializer of /repo.  They read plain attributes of the repo's value objects.

"Canonical" VLQ is defined as what the node's encoder emits: most significant group first,
continuation bit on all but the last byte, and (bit_length // 7) + 1 bytes -- which is the
textbook minimal form except at bit lengths that are multiples of 7 (127 -> 80 7f).  The recorded
network blocks (C18) pin that convention.
"""
import hashlib
import struct


def sha256d(b):
    return hashlib.sha256(hashlib.sha256(b).digest()).digest()


def blake2(b):
    return hashlib.blake2b(b, digest_size=32).digest()


def vlq(i):
    n = (i.bit_length() // 7) + 1
    out = bytearray()
    for j in reversed(range(n)):
        g = (i >> (7 * j)) & 0x7f
        out.append(g | (0x80 if j > 0 else 0))
    return bytes(out)


def vlq_decode_ref(b, pos=0):
    """strict reference decoder: returns (value, newpos) or raises ValueError when the encoding is
    not the canonical one."""
    start = pos
    v = 0
    while True:
        if pos >= len(b):
            raise ValueError("truncated")
        c = b[pos]
        pos += 1
        v = v * 128 + (c & 0x7f)
        if c < 128:
            break
    if vlq(v) != bytes(b[start:pos]):
        raise ValueError("non canonical")
    return v, pos


def enc_pubkey(pk):
    return b'\x02' + pk.public_key


def enc_signature(sig):
    n = type(sig).__name__
    if n == 'SignableEquivalent':
        return b'\x00'
    if n == 'CoinbaseData':
        return b'\x01' + struct.pack(">I", sig.height) + struct.pack("B", len(sig.signature)) + sig.signature
    if n == 'SECP256k1Signature':
        return b'\x02' + sig.signature
    raise ValueError("unknown signature object %r" % (sig,))


def enc_ref(r):
    return r.hash + struct.pack(">I", r.index)


def enc_input(i, blank=False):
    return enc_ref(i.output_reference) + (b'\x00' if blank else enc_signature(i.signature))


def enc_output(o):
    return struct.pack(">Q", o.value) + enc_pubkey(o.public_key)


def enc_tx(tx, blank=False):
    out = [b'\x00', vlq(len(tx.inputs))]
    out += [enc_input(i, blank) for i in tx.inputs]
    out.append(vlq(len(tx.outputs)))
    out += [enc_output(o) for o in tx.outputs]
    return b''.join(out)


def signed_message(tx):
    """what a spend signature must cover: version byte, every reference (signature slot blanked to
    the one-byte placeholder tag) and every output"""
    return enc_tx(tx, blank=True)


def txid(tx):
    return sha256d(enc_tx(tx))


def enc_summary(s):
    return (vlq(s.height) + s.previous_block_hash + s.merkle_root_hash + struct.pack(">I", s.timestamp) +
            s.target + struct.pack(">I", s.nonce))


def enc_evidence(e):
    return e.summary_hash + e.chain_sample + e.block_hash


def enc_header(h):
    return b'\x00' + enc_summary(h.summary) + enc_evidence(h.pow_evidence)


def enc_txlist(txs):
    return vlq(len(txs)) + b''.join(enc_tx(t) for t in txs)


def enc_block(b):
    return enc_header(b.header) + enc_txlist(b.transactions)


def blockid(b):
    return sha256d(enc_header(b.header))


def merkle_root(ids):
    """pairwise sha256d, odd element promoted unchanged"""
    ids = list(ids)
    if not ids:
        raise ValueError("empty")
    while len(ids) > 1:
        nxt = []
        for i in range(0, len(ids), 2):
            if i + 1 < len(ids):
                nxt.append(sha256d(ids[i] + ids[i + 1]))
            else:
                nxt.append(ids[i])
        ids = nxt
    return ids[0]
