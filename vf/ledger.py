"""Shared machinery for the ledger tree searches (C01-C05, C03): transaction-carrying block universe,
history enumeration with canonical-state de-duplication, state rebuild, deep fingerprints."""
import hashlib

from . import enc, refmodel, world
from .world import K, oref, owned

COIN = 100_000_000


def setup(horizon=True, fast=True, memo=True):
    from . import seams
    if fast:
        seams.fast_pow()
    if horizon:
        seams.lower_horizon()
    if memo:
        seams.memo_ecdsa()


# ------------------------------------------------------------------ payload menus -------------------

def split_tx(node):
    """spend the root reward (K0) into outputs for all key kinds"""
    src = owned(node.utxo, K[0])[0]
    v = node.utxo[src][0]
    outs = [(3 * COIN, K[0]), (2 * COIN, K[1]), (1 * COIN, K[2]), (1 * COIN, K[3]), (COIN // 2, K[1])]
    rest = v - sum(o[0] for o in outs) - 1000
    outs.append((rest, K[0]))
    return world.mk_tx([(oref(src), K[0])], outs)


def tx_payload(parent, label):
    """Rule-based payload menu evaluated against the parent's (reference) unspent set.
    Returns (txs, miner, dt) or None when not applicable at this parent."""
    u = parent.utxo
    name = label[0] if isinstance(label, tuple) else label
    dt = 120
    if name == 'e':
        return [], K[4], dt
    if name == 'x':       # empty block with the longest allowed reward data
        return [], K[5], dt + 1, {'cb_data': b'r' * 200}
    if name == 'y':       # empty block with 1 byte of reward data and a two-output reward
        # (both outputs pay the same key, which has never been paid before on any chain)
        return [], K[5], dt + 2, {'cb_data': b'r', 'cb_outs': [(refmodel.subsidy(parent.height + 1) - 7, K[7]), (7, K[7])]}
    if name == 'z':       # empty block whose reward also has a ZERO-value output paying a key that holds other outputs
        # (reward outputs are bounded in sum only; a zero-value output is an unspent output like any other)
        return [], K[5], dt + 4, {'cb_data': b'z', 'cb_outs': [(refmodel.subsidy(parent.height + 1), K[5]), (0, K[1])]}
    if name == 'k':       # K1 spends ALL its positive outputs in one transaction, everything goes to K0
        o1 = [r for r in owned(u, K[1]) if u[r][0] > 0]
        if not o1:
            return None
        v = sum(u[r][0] for r in o1)
        return [world.mk_tx([(oref(r), K[1]) for r in o1], [(v - 3, K[0])])], K[4], dt + 6
    if name == 'n':       # empty block whose reward transaction has NO outputs (the miner forfeits the reward: valid)
        return [], K[5], dt + 9, {'cb_data': b'n', 'cb_outs': []}
    if name == 'i':       # one transaction whose inputs alternate between owners: K1, K0, K1 (everything to the foreign key)
        o0 = owned(u, K[0])
        o1 = [r for r in owned(u, K[1]) if u[r][0] > 0]
        if not o0 or len(o1) < 2:
            return None
        v = u[o1[0]][0] + u[o0[0]][0] + u[o1[1]][0]
        return [world.mk_tx([(oref(o1[0]), K[1]), (oref(o0[0]), K[0]), (oref(o1[1]), K[1])], [(v - 9, K[2])])], K[5], dt + 8
    if name == 'q':       # K0's largest output -> TWO outputs of the same amount to the same key (K1) + change
        o0 = owned(u, K[0])
        if not o0 or u[o0[0]][0] < 4 * COIN:
            return None
        v = u[o0[0]][0]
        return [world.mk_tx([(oref(o0[0]), K[0])], [(COIN, K[1]), (COIN, K[1]), (v - 2 * COIN - 11, K[0])])], K[4], dt + 10
    if name == 'r':       # K1 spends the LATER of two outputs of one transaction that pay it the same amount
        o1 = owned(u, K[1])
        twins = [r for r in o1 if any(r2 != r and r2[0] == r[0] and r2[1] < r[1] and u[r2] == u[r] for r2 in o1)]
        if not twins:
            return None
        r = sorted(twins)[0]
        return [world.mk_tx([(oref(r), K[1])], [(u[r][0] - 2, K[2])])], K[5], dt + 11
    if name == 'w':       # empty block whose reward has two outputs of the same amount to the same key
        half = refmodel.subsidy(parent.height + 1) // 2
        return [], K[5], dt + 12, {'cb_data': b'w', 'cb_outs': [(half, K[1]), (half, K[1])]}
    if name == 'F':       # fan-out: K0's largest output -> 66 outputs of distinct small values to K1 + change
        o0 = owned(u, K[0])
        if not o0 or u[o0[0]][0] < 200000:
            return None
        v = u[o0[0]][0]
        outs = [(1000 + i, K[1]) for i in range(66)]
        return [world.mk_tx([(oref(o0[0]), K[0])], outs + [(v - sum(o[0] for o in outs) - 13, K[0])])], K[4], dt + 13
    if name == 'm':       # 63 transactions in one block (the transaction count needs two octets): each spends one small K1 output
        small = sorted(r for r in owned(u, K[1]) if 1000 <= u[r][0] < 1100)
        if len(small) < 63:
            return None
        return [world.mk_tx([(oref(r), K[1])], [(u[r][0] - 1, K[2])]) for r in small[:63]], K[5], dt + 14
    if name == 'O':       # wide fan-out: K0's largest output -> 1,200 outputs to K1 + change (1,201 output rows in one block)
        o0 = owned(u, K[0])
        if not o0 or u[o0[0]][0] < 5000000:
            return None
        v = u[o0[0]][0]
        outs = [(2000 + i, K[1]) for i in range(1200)]
        return [world.mk_tx([(oref(o0[0]), K[0])], outs + [(v - sum(o[0] for o in outs) - 17, K[0])])], K[4], dt + 15
    if name == 'P':       # K1 spends two late outputs of the wide fan-out
        late = sorted(r for r in owned(u, K[1]) if 2000 <= u[r][0] < 3200 and r[1] in (600, 1199))
        if len(late) < 2:
            return None
        return [world.mk_tx([(oref(r), K[1]) for r in late], [(sum(u[r][0] for r in late) - 5, K[2])])], K[5], dt + 16
    if name == 'f':       # funding: empty block mined by K0
        return [], K[0], dt
    if name == 's':       # split
        if not owned(u, K[0]):
            return None
        return [split_tx(parent)], K[1], dt
    o0 = owned(u, K[0])
    o1 = owned(u, K[1])
    if name == 'a':       # K0's largest output -> 1 coin to K1, change to K0, fee 1000
        if not o0:
            return None
        v = u[o0[0]][0]
        if v <= COIN + 1000:
            return None
        return [world.mk_tx([(oref(o0[0]), K[0])], [(COIN, K[1]), (v - COIN - 1000, K[0])])], K[4], dt
    if name == 'b':       # the same output, everything to the foreign key (conflicts with 'a')
        if not o0:
            return None
        v = u[o0[0]][0]
        return [world.mk_tx([(oref(o0[0]), K[0])], [(v - 5, K[2])])], K[5], dt + 7
    if name == 'c':       # two-input spend of K1's two largest outputs back to K0 and K1
        if len(o1) < 2:
            return None
        v = u[o1[0]][0] + u[o1[1]][0]
        return [world.mk_tx([(oref(o1[0]), K[1]), (oref(o1[1]), K[1])], [(v // 2, K[0]), (v - v // 2 - 3, K[1])])], K[4], dt
    if name == 'g':       # K0's largest output -> two outputs to a key never paid before + change
        if not o0:
            return None
        v = u[o0[0]][0]
        if v < 1000:
            return None
        return [world.mk_tx([(oref(o0[0]), K[0])], [(v // 4, K[6]), (v // 3, K[6]), (v - v // 4 - v // 3 - 2, K[0])])], K[4], dt + 5
    if name == 'd':       # two transactions in one block: 'a' and 'c'
        ra = tx_payload(parent, 'a')
        rc = tx_payload(parent, 'c')
        if ra is None or rc is None:
            return None
        return ra[0] + rc[0], K[5], dt + 3
    raise KeyError(label)


def tx_universe(root_kind='easy', mined=True, root_target=None):
    root = (world.easy_root(target=root_target) if root_target else world.easy_root()) if root_kind == 'easy' \
        else world.genesis_node()
    return world.Universe(root, tx_payload, None if mined else {'pow_ok': None})


# ------------------------------------------------------------------ histories -----------------------

def canonical(paths, head):
    return (frozenset(paths), head)


def enumerate_histories(uni, prefix, labels, depth, parents_from=0, want_all_levels=True):
    """BFS over arrival histories: each step adds, on any stored block, any applicable payload that is not stored
    yet.  De-duplicated on (set of stored paths, head path): the implementation's state is a function of those
    (that itself is what C03/C04 check, by comparing against replay-from-genesis for every history kept here
    and, in C03, by the order-differential).  Returns list of levels; each level is a list of histories
    (tuples of paths in arrival order), prefix included."""
    ref = refmodel.ForkChoice()
    ref.add(uni.root)
    for p in prefix:
        ref.add(uni.get(p))
    start = tuple(prefix)
    seen = {canonical(start, ref.head().path)}
    levels = [[start]]
    frontier = [start]
    for d in range(depth):
        nxt = []
        for hist in frontier:
            stored = [()] + list(hist)
            fc = refmodel.ForkChoice()
            fc.add(uni.root)
            for p in hist:
                fc.add(uni.get(p))
            for pp in stored[parents_from:]:
                for lab in labels:
                    np_ = pp + (lab,)
                    if np_ in hist:
                        continue
                    n = uni.get(np_)
                    if n is None:
                        continue
                    f2 = fc.copy()
                    f2.add(n)
                    key = canonical(hist + (np_,), f2.head().path)
                    if key in seen:
                        continue
                    seen.add(key)
                    nxt.append(hist + (np_,))
        levels.append(nxt)
        frontier = nxt
    return levels


def build(uni, hist, now, validated=True, snapshots=None, lookups=None):
    """real CoinState for a history; returns (coinstate, ForkChoice reference).
    lookups: None, or 'head' / 'all' = query the per-key balances (at the head / at every stored block) after every
    add, as a running node does (miner and wallet read balances between blocks), so that whatever the state caches
    on demand is hot when the next block arrives"""
    from skepticoin.coinstate import CoinState
    cs = CoinState.empty().add_block_no_validation(uni.root.block)
    fc = refmodel.ForkChoice()
    fc.add(uni.root)
    if snapshots is not None:
        snapshots.append(cs)
    wal = None
    if lookups == 'wallet':
        # a wallet (one long-lived object holding K0 and K1) builds two small spends on the current state between any two
        # arrivals, as a user sending coins while the node runs: reading the ledger must not write to it
        from skepticoin.wallet import Wallet
        wal = Wallet({K[0].pub: K[0].priv, K[1].pub: K[1].priv}, [], {})
    for p in hist:
        n = uni.get(p)
        if wal is not None:
            from skepticoin.wallet import create_spend_transaction
            for amt in (1, 3):
                try:
                    create_spend_transaction(wal, cs, amt, 0, K[2].pk, K[1].pk)
                except Exception:
                    pass
        elif lookups:
            try:
                for bid in ([cs.current_chain_hash] if lookups == 'head' else list(cs.block_by_hash.keys())):
                    cs.public_key_balances_by_hash[bid]
                    cs.unspent_transaction_outs_by_hash[bid]
            except Exception:
                pass
        cs = cs.add_block(n.block, now) if validated else cs.add_block_no_validation(n.block)
        fc.add(n)
        if snapshots is not None:
            snapshots.append(cs)
    if wal is not None:
        from skepticoin.wallet import create_spend_transaction
        for amt in (1, 3):
            try:
                create_spend_transaction(wal, cs, amt, 0, K[2].pk, K[1].pk)
            except Exception:
                pass
    return cs, fc


# ------------------------------------------------------------------ fingerprints --------------------

def utxo_view(m):
    """implementation unspent map -> plain dict comparable with the reference"""
    return {(r.hash, r.index): (o.value, o.public_key.public_key) for r, o in m.items()}


def fingerprint(cs, balances=True):
    """deep digest of everything a CoinState value holds"""
    h = hashlib.sha256()
    h.update(repr(cs.current_chain_hash).encode())
    for bid in sorted(cs.block_by_hash.keys()):
        h.update(bid)
        h.update(enc.enc_block(cs.block_by_hash[bid]))
    h.update(b'|heads')
    for bid in sorted(cs.heads.keys()):
        h.update(bid)
        h.update(enc.blockid(cs.heads[bid]))
    h.update(b'|utxo')
    for bid in sorted(cs.unspent_transaction_outs_by_hash.keys()):
        h.update(bid)
        for k, v in sorted(utxo_view(cs.unspent_transaction_outs_by_hash[bid]).items()):
            h.update(k[0] + k[1].to_bytes(4, 'big') + v[0].to_bytes(16, 'big', signed=True) + v[1])
    h.update(b'|index')
    for bid in sorted(cs.block_by_height_by_hash.keys()):
        h.update(bid)
        m = cs.block_by_height_by_hash[bid]
        for ht in sorted(m.keys()):
            h.update(ht.to_bytes(8, 'big') + enc.blockid(m[ht]))
    if balances:
        h.update(b'|bal')
        cache = cs.public_key_balances_by_hash.cache
        for bid in sorted(cache.keys()):
            h.update(bid)
            for pk, bal in sorted(((pk.public_key, b) for pk, b in cache[bid].items())):
                h.update(pk + repr(bal.value).encode())
                for r in bal.output_references:
                    h.update(r.hash + r.index.to_bytes(4, 'big'))
    return h.hexdigest()


def hist_str(hist):
    return [('/'.join(str(x) for x in p) or '<root>') for p in hist]
