"""Seams (DESIGN section 3): every rebinding asserts that the name still exists, so a refactor that
renames a seam gives a harness error (exit 2) instead of a silent pass or a false VIOLATION."""
import hashlib
import logging


class HarnessError(Exception):
    """Something is wrong with the harness (not with the code under test): exit code 2."""


INSTALLED = []


def rebind(module, name, value):
    if not hasattr(module, name):
        raise HarnessError("seam %s.%s no longer exists" % (getattr(module, '__name__', module), name))
    old = getattr(module, name)
    setattr(module, name, value)
    INSTALLED.append("%s.%s" % (getattr(module, '__name__', module), name))
    return old


def fake_scrypt(password, salt):
    return hashlib.blake2b(password + b'|' + salt, digest_size=32, person=b'vf-pow').digest()


def quiet_logging():
    logging.disable(logging.CRITICAL)


def fast_pow():
    """consensus.scrypt -> cheap 32-byte PRF (the real function is pinned by C18)."""
    from skepticoin import consensus
    from . import refmodel
    rebind(consensus, 'scrypt', fake_scrypt)
    refmodel.SCRYPT = fake_scrypt


def real_pow():
    from skepticoin import hash as skhash
    from . import refmodel
    import scrypt as _scrypt
    refmodel.SCRYPT = lambda p, s: _scrypt.hash(p, s, N=1 << 15, r=8, p=1, buflen=32)
    assert hasattr(skhash, 'scrypt')


def lower_horizon():
    """checkpoint horizon below height 0, so 'the path used above the horizon' runs on short chains"""
    from skepticoin import consensus
    rebind(consensus, 'MAX_KNOWN_HASH_HEIGHT', -1)
    rebind(consensus, 'KNOWN_HASHES', {})


def retarget_period(blocks, timespan):
    from skepticoin import consensus
    from . import refmodel
    rebind(consensus, 'BLOCKS_BETWEEN_TARGET_READJUSTMENT', blocks)
    rebind(consensus, 'DESIRED_TARGET_READJUSTMENT_TIMESPAN', timespan)
    refmodel.PERIOD = blocks
    refmodel.TIMESPAN = timespan


class Clock:
    def __init__(self, t=0):
        self.t = t

    def __call__(self):
        return float(self.t)


def virtual_clock(clock, modules=('remote_peer', 'local_peer', 'mining')):
    import skepticoin.networking.remote_peer as rp
    import skepticoin.networking.local_peer as lp
    if 'remote_peer' in modules:
        rebind(rp, 'time', clock)
    if 'local_peer' in modules:
        rebind(lp, 'time', clock)
    if 'mining' in modules:
        import skepticoin.mining as mining
        rebind(mining, 'time', clock)


def deterministic_wallet_signing():
    """ecdsa.SigningKey.sign -> RFC 6979 deterministic variant (any valid signature is acceptable to the
    verifier; determinism makes transaction ids reproducible)."""
    import ecdsa

    cache = {}

    def sign(self, data, *a, **k):
        key = (self.to_string(), bytes(data))
        r = cache.get(key)
        if r is None:
            r = cache[key] = self.sign_deterministic(data)
        return r
    if getattr(ecdsa.SigningKey.sign, '_vf', False):
        return
    sign._vf = True
    rebind(ecdsa.SigningKey, 'sign', sign)


def memo_ecdsa():
    """Memoise ecdsa verification (a pure function of key, signature, message) and key decoding: the
    library is not under test, and the tree searches re-validate the same signatures many times."""
    import ecdsa
    orig_verify = ecdsa.VerifyingKey.verify
    orig_from_string = ecdsa.VerifyingKey.from_string
    if getattr(orig_verify, '_vf_memo', False):
        return
    vcache = {}
    kcache = {}

    def verify(self, signature, data, *a, **k):
        if a or k:
            return orig_verify(self, signature, data, *a, **k)
        key = (self.to_string(), bytes(signature), bytes(data))
        r = vcache.get(key)
        if r is None:
            try:
                r = (True, orig_verify(self, signature, data))
            except Exception as e:     # BadSignatureError etc.: re-raised identically on every hit
                r = (False, e)
            vcache[key] = r
        if r[0]:
            return r[1]
        raise r[1]
    verify._vf_memo = True

    def from_string(string, curve=ecdsa.NIST192p, *a, **k):
        if a or k:
            return orig_from_string(string, curve, *a, **k)
        key = (bytes(string), curve.name)
        r = kcache.get(key)
        if r is None:
            try:
                r = (True, orig_from_string(string, curve))
            except Exception as e:
                r = (False, e)
            kcache[key] = r
        if r[0]:
            return r[1]
        raise r[1]
    rebind(ecdsa.VerifyingKey, 'verify', verify)
    rebind(ecdsa.VerifyingKey, 'from_string', staticmethod(from_string))


def halving_interval(n):
    """subsidy halving interval -> n blocks (C02: chains that cross halvings; the real 1,050,000 is C16's subject)"""
    from skepticoin import consensus
    from . import refmodel
    rebind(consensus, 'SUBSIDY_HALVING_INTERVAL', n)
    refmodel.HALVING = n


class RecyclingIds:
    """Adversarial but legal `id()`: CPython only promises that ids are unique among objects alive at the same time, and in
    practice hands the address of a dead object to a later one whenever the allocator feels like it.  This stand-in makes
    that reuse systematic: every object gets the smallest number not held by a live object (weak references notice
    deaths).  Installed as the global name `id` of the skepticoin modules, so code that keys a cache by id(obj) without
    keeping obj alive meets the collision it is exposed to, deterministically."""

    def __init__(self):
        import weakref
        self._weakref = weakref
        self.live = {}        # real id -> (number, weakref)
        self.free = []
        self.next = 1
        self.calls = 0
        self.pick = 0

    def __call__(self, obj):
        self.calls += 1
        rid = _real_id(obj)
        e = self.live.get(rid)
        if e is not None and e[1]() is obj:
            return e[0]
        try:
            def gone(_, rid=rid):
                ent = self.live.pop(rid, None)
                if ent is not None:
                    self.free.append(ent[0])
                    self.free.sort(reverse=True)
            r = self._weakref.ref(obj, gone)
        except TypeError:
            return (1 << 40) + rid          # not weak-referenceable: its real id, in a range of its own
        if self.free:
            # which dead object's number is handed out is the harness's choice (`pick`), as it is the allocator's in CPython
            num = self.free.pop(-1 - (self.pick % len(self.free)))
        else:
            num = self.next
            self.next += 1
        self.live[rid] = (num, r)
        return num


_real_id = id


def recycling_ids():
    """bind `id` in every loaded skepticoin module to one RecyclingIds instance; returns it"""
    import sys
    r = RecyclingIds()
    for name, mod in list(sys.modules.items()):
        if name.startswith('skepticoin') and mod is not None and hasattr(mod, '__dict__'):
            mod.__dict__['id'] = r
    INSTALLED.append('id() -> recycling ids in skepticoin modules')
    return r
