"""Reference models ("deliberately boring"): ledger replay, complete block validator encoding the
text of properties C01/C02/C05, fork choice, retarget rule, chain sampler.  Nothing here calls
skepticoin.consensus / coinstate / balances / serialization; only attributes of value objects are
read and `ecdsa` is called directly."""
import ecdsa

from . import enc

SCRYPT = None            # set by seams.fast_pow() / seams.real_pow()
PERIOD = 10080
TIMESPAN = 1209600
MAX_SASHIMI = 2_099_999_986_350_000
MAX_BLOCK_SIZE = 200_000
MAX_CB_DATA = 200
MAX_FUTURE = 30
INITIAL_SUBSIDY = 1_000_000_000
HALVING = 1_050_000
MAX256 = (1 << 256) - 1

# rule tags by the property they belong to
C01_TAGS = {'missing_output', 'dup_ref_in_tx', 'dup_ref_in_block', 'bad_signature', 'placeholder_sig', 'null_ref'}
C02_TAGS = {'reward_too_large', 'value_range', 'total_range', 'overspend', 'cb_shape', 'no_tx', 'tx_no_outputs',
            'tx_no_inputs'}
C05_TAGS = {'pow', 'target', 'height', 'cb_height', 'time_parent', 'time_future', 'evidence', 'unknown_parent'}


def subsidy(height):
    e = height // HALVING
    return 0 if e >= 64 else INITIAL_SUBSIDY >> e


def new_target(prev_target_int, elapsed):
    return min(prev_target_int * elapsed // TIMESPAN, MAX256)


_verify_cache = {}


def verify(pub, sig, msg):
    k = (pub, sig, msg)
    r = _verify_cache.get(k)
    if r is None:
        try:
            vk = ecdsa.VerifyingKey.from_string(pub, curve=ecdsa.SECP256k1)
            r = bool(vk.verify(sig, msg))
        except Exception:
            r = False
        _verify_cache[k] = r
    return r


def is_null_ref(r):
    return r.hash == b'\x00' * 32 and r.index == 0


def refkey(r):
    return (r.hash, r.index)


def apply_block(utxo, block):
    """reference ledger step: returns new dict; raises KeyError if a spent output is missing"""
    u = dict(utxo)
    for n, tx in enumerate(block.transactions):
        if n > 0:
            for i in tx.inputs:
                del u[refkey(i.output_reference)]
    for n, tx in enumerate(block.transactions):
        t = enc.txid(tx)
        for j, o in enumerate(tx.outputs):
            u[(t, j)] = (o.value, o.public_key.public_key)
    return u


def balances(utxo):
    """pubkey bytes -> (value, set of refs)"""
    out = {}
    for ref, (v, pk) in utxo.items():
        e = out.setdefault(pk, [0, set()])
        e[0] += v
        e[1].add(ref)
    return out


def chain_sample(summary_hash, height, ser_at):
    """ser_at(h) -> reference-serialised ancestor at height h"""
    out = []
    h = summary_hash
    for i in range(8):
        bh = int.from_bytes(h[:8], 'big') % height
        ser = ser_at(bh)
        start = int.from_bytes(h[8:12], 'big') % len(ser)
        sl = (ser[start:] + ser * 4)[:4]
        out.append(sl)
        if i != 7:
            h = enc.sha256d(h + sl)
    return b''.join(out)


def evidence_for(summary, height, txs, ser_at, txs_ser=None):
    """(summary_hash, chain_sample, block_hash) as the rule prescribes"""
    sh = SCRYPT(enc.enc_summary(summary), height.to_bytes(8, 'big'))
    cs = b'\x00' * 32 if height == 0 else chain_sample(sh, height, ser_at)
    bh = enc.blake2(sh + cs + (enc.enc_txlist(txs) if txs_ser is None else txs_ser))
    return sh, cs, bh


def expected_target(parent, height, timestamp):
    """parent: object with .block, .anc(h) ; the retarget rule computed from the block's own ancestors"""
    pt = parent.block.header.summary.target
    if height % PERIOD == 0:
        start = parent.anc(height - PERIOD)
        elapsed = timestamp - start.block.header.summary.timestamp
        if elapsed < 0:
            return None
        return new_target(int.from_bytes(pt, 'big'), elapsed).to_bytes(32, 'big')
    return pt


def check_tx_by_itself(tx, tags):
    if len(tx.inputs) == 0:
        tags.add('tx_no_inputs')
    if len(tx.outputs) == 0:
        tags.add('tx_no_outputs')
    if len(enc.enc_tx(tx)) > MAX_BLOCK_SIZE:
        tags.add('tx_size')
    tot = 0
    for o in tx.outputs:
        if not (0 < o.value <= MAX_SASHIMI):
            tags.add('value_range')
        tot += o.value
    if len(tx.outputs) and not (0 < tot <= MAX_SASHIMI):
        tags.add('total_range')
    refs = [refkey(i.output_reference) for i in tx.inputs]
    if len(set(refs)) != len(refs):
        tags.add('dup_ref_in_tx')
    for i in tx.inputs:
        if is_null_ref(i.output_reference):
            tags.add('null_ref')
        if type(i.signature).__name__ != 'SECP256k1Signature':
            tags.add('placeholder_sig')


def check_tx_in_state(tx, utxo, tags):
    """spend rules against one unspent set (the parent's, for a block; the head's, for the pool)"""
    msg = enc.signed_message(tx)
    tin = 0
    for i in tx.inputs:
        k = refkey(i.output_reference)
        if k not in utxo:
            tags.add('missing_output')
            continue
        v, pub = utxo[k]
        tin += v
        s = i.signature
        if type(s).__name__ != 'SECP256k1Signature' or not verify(pub, s.signature, msg):
            tags.add('bad_signature')
    if 'missing_output' not in tags and sum(o.value for o in tx.outputs) > tin:
        tags.add('overspend')


def validate_tx(tx, utxo):
    tags = set()
    check_tx_by_itself(tx, tags)
    check_tx_in_state(tx, utxo, tags)
    return tags


def validate_block(block, parent, now):
    """Complete reference validation of `block` offered on top of `parent` (a node object with
    .block .height .utxo .anc(h) .ser) or None when the parent is not stored.  Returns the set of broken
    rules (empty set = valid)."""
    tags = set()
    s = block.header.summary
    e = block.header.pow_evidence
    txs = block.transactions
    if enc.blockid(block) >= s.target:
        tags.add('pow')
    if s.timestamp > now + MAX_FUTURE:
        tags.add('time_future')
    if len(txs) == 0:
        tags.add('no_tx')
        return tags
    if len(enc.enc_block(block)) > MAX_BLOCK_SIZE:
        tags.add('size')
    cb = txs[0]
    cb_ok = (len(cb.inputs) == 1 and is_null_ref(cb.inputs[0].output_reference) and
             type(cb.inputs[0].signature).__name__ == 'CoinbaseData')
    if not cb_ok:
        tags.add('cb_shape')
    else:
        if len(cb.inputs[0].signature.signature) > MAX_CB_DATA:
            tags.add('cb_data_size')
        if cb.inputs[0].signature.height != s.height:
            tags.add('cb_height')
    for tx in txs[1:]:
        check_tx_by_itself(tx, tags)
    ids = [enc.txid(t) for t in txs]
    if len(set(ids[1:])) != len(ids[1:]):
        tags.add('dup_tx')
    seen = set()
    for tx in txs[1:]:
        for i in tx.inputs:
            k = refkey(i.output_reference)
            if k in seen:
                tags.add('dup_ref_in_block')
            seen.add(k)
    if s.merkle_root_hash != enc.merkle_root(ids):
        tags.add('merkle')

    if parent is None:
        tags.add('unknown_parent')
        return tags
    ps = parent.block.header.summary
    if s.timestamp <= ps.timestamp:
        tags.add('time_parent')
    h = parent.height + 1
    if s.height != h:
        tags.add('height')
    if expected_target(parent, h, s.timestamp) != s.target:
        tags.add('target')
    # evidence recomputed from the summary, the ancestors the summary hash selects, the full tx list
    try:
        ev = evidence_for(s, s.height, txs, lambda hh: parent.anc(hh).ser)
    except Exception:
        ev = None   # e.g. stated height 0 / beyond the chain: nothing can be selected
    if ev is None or (e.summary_hash, e.chain_sample, e.block_hash) != ev:
        tags.add('evidence')
    utxo = parent.utxo
    fees = 0
    fees_known = True
    for tx in txs[1:]:
        t = set()
        check_tx_in_state(tx, utxo, t)
        tags |= t
        if 'missing_output' in t:
            fees_known = False
        else:
            fees += sum(utxo[refkey(i.output_reference)][0] for i in tx.inputs) - sum(o.value for o in tx.outputs)
    if fees_known:
        if sum(o.value for o in cb.outputs) > subsidy(h) + fees:
            tags.add('reward_too_large')
    return tags


# ---------------------------------------------------------------- fork choice ----------------------

class ForkChoice:
    """arrival list; head = earliest arrival among blocks of maximal height"""

    def __init__(self):
        self.order = []          # node objects in arrival order
        self.children = {}

    def copy(self):
        f = ForkChoice()
        f.order = list(self.order)
        f.children = {k: list(v) for k, v in self.children.items()}
        return f

    def add(self, node):
        self.order.append(node)
        self.children.setdefault(node.bid, [])
        if node.parent is not None:
            self.children.setdefault(node.parent.bid, []).append(node.bid)

    def head(self):
        best = None
        for n in self.order:
            if best is None or n.height > best.height:
                best = n
        return best

    def tips(self):
        return {n.bid for n in self.order if not self.children[n.bid]}

    @staticmethod
    def index(node):
        out = {}
        n = node
        while n is not None:
            out[n.height] = n.bid
            n = n.parent
        return out

    def forks(self):
        """{tip id: id of lowest common ancestor with the active chain}"""
        hd = self.head()
        active = set(self.index(hd).values())
        out = {}
        for n in self.order:
            if self.children[n.bid]:
                continue
            m = n
            while m.bid not in active:
                m = m.parent
            out[n.bid] = m.bid
        return out
