"""Deterministic block-universe builder.  Blocks are real skepticoin value objects, assembled by
harness-side code (reference encoders / reference evidence), so that adversarial variants with exactly
one broken rule can be produced; everything is a pure function of its description and memoised."""
import struct

import ecdsa

from skepticoin.datatypes import (Block, BlockHeader, BlockSummary, Input, Output, OutputReference, PowEvidence,
                                  Transaction)
from skepticoin.signing import CoinbaseData, SECP256k1PublicKey, SECP256k1Signature, SignableEquivalent
from skepticoin.genesis import genesis_block_data

from . import enc, refmodel

NULL32 = b'\x00' * 32
T0 = 1_700_000_000
EASY_TARGET = b'\xff' * 32
GENESIS_TARGET = (1 << 248).to_bytes(32, 'big')


class Key:
    def __init__(self, secret):
        self.sk = ecdsa.SigningKey.from_secret_exponent(secret, curve=ecdsa.SECP256k1)
        self.pub = self.sk.verifying_key.to_string()
        self.priv = self.sk.to_string()
        self.pk = SECP256k1PublicKey(self.pub)


class BadKey:
    """64 bytes that are not a point on the curve: usable as a recipient only"""

    def __init__(self):
        self.pub = b'\x00' * 63 + b'\x05'
        self.pk = SECP256k1PublicKey(self.pub)
        self.sk = None


K = [Key(0x1001), Key(0x1002), Key(0x2003), BadKey(), Key(0x3005), Key(0x3006), Key(0x4007), Key(0x4008)]
# K[0], K[1]: wallet keys; K[2]: foreign key; K[3]: invalid curve point; K[4], K[5]: miners / extras;
# K[6], K[7]: keys that are paid for the first time by a transaction with two outputs to the same key

_sig_cache = {}


def sign(key, msg):
    k = (key.pub, msg)
    s = _sig_cache.get(k)
    if s is None:
        s = key.sk.sign_deterministic(msg)
        _sig_cache[k] = s
    return s


def sign2(key, msg):
    """a SECOND valid signature of the same message under the same key (ECDSA signatures are not unique)"""
    k = (key.pub, msg, 2)
    s = _sig_cache.get(k)
    if s is None:
        s = key.sk.sign_deterministic(msg, extra_entropy=b'another nonce')
        if s == sign(key, msg):
            s = key.sk.sign_deterministic(msg, extra_entropy=b'yet another nonce')
        _sig_cache[k] = s
    return s


def ref(txid, index):
    return OutputReference(txid, index)


def mk_tx(ins, outs, sign_msg=None):
    """ins: list of (OutputReference, signer) where signer is a Key, or a ready Signature object, or
    ('raw', bytes64); outs: list of (value, pk-holder or SECP256k1PublicKey).
    Signatures are made over the reference signed-message of the *final* transaction unless sign_msg is given."""
    outputs = [Output(v, (p.pk if hasattr(p, 'pk') else p)) for v, p in outs]
    blank = Transaction([Input(r, SignableEquivalent()) for r, _ in ins], outputs)
    msg = sign_msg if sign_msg is not None else enc.signed_message(blank)
    inputs = []
    for r, s in ins:
        if isinstance(s, Key):
            sig = SECP256k1Signature(sign(s, msg))
        elif isinstance(s, tuple) and s[0] == 'second-signature':
            sig = SECP256k1Signature(sign2(s[1], msg))
        elif isinstance(s, tuple) and s[0] == 'raw':
            sig = SECP256k1Signature(s[1])
        else:
            sig = s
        inputs.append(Input(r, sig))
    return Transaction(inputs, outputs)


def coinbase_tx(height, outs, data=b''):
    return Transaction([Input(OutputReference(NULL32, 0), CoinbaseData(height, data))],
                       [Output(v, (p.pk if hasattr(p, 'pk') else p)) for v, p in outs])


class Node:
    """a block together with what the reference model knows about its chain"""
    __slots__ = ('block', 'parent', 'height', 'bid', 'ser', 'utxo', 'path', '_anc', 'meta')

    def __init__(self, block, parent, path=None, check_apply=True):
        self.block = block
        self.parent = parent
        self.height = 0 if parent is None else parent.height + 1
        self.ser = enc.enc_block(block)
        self.bid = enc.blockid(block)
        self.utxo = refmodel.apply_block({} if parent is None else parent.utxo, block) if check_apply else {}
        self.path = path
        self._anc = None
        self.meta = {}

    def anc(self, h):
        if h < 0 or h > self.height:
            raise KeyError(h)
        if self._anc is None:
            # built lazily; shares nothing, fine for the short chains of the tree searches
            lst = []
            n = self
            while n is not None:
                lst.append(n)
                n = n.parent
            lst.reverse()
            self._anc = lst
        return self._anc[h]

    def chain(self):
        self.anc(0)
        return self._anc

    @property
    def ts(self):
        return self.block.header.summary.timestamp

    def __repr__(self):
        return "Node(%s h=%d %s)" % (self.path, self.height, self.bid.hex()[:8])


def genesis_node():
    b = Block.deserialize(genesis_block_data)
    return Node(b, None, path=())


def assemble(parent, txs, miner, timestamp, *, cb_outs=None, cb_height=None, cb_data=b'', cb_tx=None,
             height=None, target=None, prev=None, merkle=None, pow_ok=True, evid=None, evid_txs=None,
             evid_parent=None, evid_height=None, all_txs=None, nonce0=0, max_tries=30000, fees=None,
             no_evidence=False):
    """Build a Block on `parent` (Node, or None for a root).  Defaults give a fully valid block; each keyword
    overrides one ingredient.  `evid(sh, cs, bh) -> (sh, cs, bh)` post-processes the evidence;
    `all_txs` replaces the complete transaction list (reward included)."""
    h = (0 if parent is None else parent.height + 1) if height is None else height
    true_h = 0 if parent is None else parent.height + 1
    if all_txs is not None:
        txl = list(all_txs)
    else:
        if cb_tx is None:
            if cb_outs is None:
                if fees is None:
                    fees = 0
                    for tx in txs:
                        fees += sum(parent.utxo[refmodel.refkey(i.output_reference)][0] for i in tx.inputs)
                        fees -= sum(o.value for o in tx.outputs)
                cb_outs = [(refmodel.subsidy(true_h) + fees, miner)]
            cb_tx = coinbase_tx(h if cb_height is None else cb_height, cb_outs, cb_data)
        txl = [cb_tx] + list(txs)
    mr = merkle if merkle is not None else enc.merkle_root([enc.txid(t) for t in txl])
    if target is None:
        target = EASY_TARGET if parent is None else refmodel.expected_target(parent, true_h, timestamp)
    pv = prev if prev is not None else (NULL32 if parent is None else parent.bid)
    ep = parent if evid_parent is None else evid_parent
    etx = txl if evid_txs is None else evid_txs
    eh = h if evid_height is None else evid_height
    ser_at = (lambda hh: ep.anc(hh).ser) if ep is not None else None
    etx_ser = enc.enc_txlist(etx)
    for nonce in range(nonce0, nonce0 + max_tries):
        s = BlockSummary(h, pv, mr, timestamp, target, nonce & 0xffffffff)
        if no_evidence:      # unvalidated filler ancestors: only sampled from, never re-validated
            ev = (b'\x11' * 32, b'\x22' * 32, b'\x33' * 32)
        else:
            ev = refmodel.evidence_for(s, eh, etx, ser_at, etx_ser)
        if evid is not None:
            ev = evid(*ev)
        hdr = BlockHeader(s, PowEvidence(*ev))
        ok = enc.sha256d(enc.enc_header(hdr)) < target
        if pow_ok is None or ok == pow_ok:
            return Block(hdr, txl)
    raise RuntimeError("no nonce found")


def easy_root(target=EASY_TARGET, timestamp=T0, miner=None):
    b = assemble(None, [], miner or K[0], timestamp, target=target)
    return Node(b, None, path=())


def from_wire(block):
    """the same block as a peer / the store would hand it over: decoded from bytes (ids cached from raw bytes)"""
    return Block.deserialize(enc.enc_block(block))


class Universe:
    """memoised tree of nodes addressed by path (tuple of step labels).  step(parent, label) must be a
    pure function returning (txs, miner, dt) or None when the payload does not apply at that parent."""

    _uids = 0

    def __init__(self, root, payload_fn, default_kw=None):
        Universe._uids += 1
        self.uid = (Universe._uids, refmodel.HALVING, refmodel.PERIOD)
        self.default_kw = default_kw or {}
        self.root = root
        self.payload_fn = payload_fn
        self.nodes = {(): root}
        self.na = set()

    def get(self, path):
        path = tuple(path)
        n = self.nodes.get(path)
        if n is not None:
            return n
        if path in self.na:
            return None
        parent = self.get(path[:-1])
        if parent is None:
            self.na.add(path)
            return None
        r = self.payload_fn(parent, path[-1])
        if r is None:
            self.na.add(path)
            return None
        txs, miner, dt = r[:3]
        kw = dict(self.default_kw)
        kw.update(r[3] if len(r) > 3 else {})
        b = assemble(parent, txs, miner, parent.ts + dt, **kw)
        n = Node(b, parent, path=path)
        self.nodes[path] = n
        return n


def owned(utxo, key):
    """refs paying `key`, deterministic order (value desc, then ref)"""
    return sorted([r for r, (v, pk) in utxo.items() if pk == key.pub], key=lambda r: (-utxo[r][0], r))


def oref(k):
    return OutputReference(k[0], k[1])
