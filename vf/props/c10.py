"""C10 - synchronisation converges and relay terminates.
2-3 real nodes in one process over fake sockets, one virtual clock; the explorer owns deliveries (one frame at a
time per connection direction), accepts, manager steps, clock advances and the choice of the peer to fetch from.
(i) exhaustive DFS with canonical-state de-duplication for small 2-node configurations; (ii) deviation-bounded
search (0, 1, 2, ... departures from the round-robin default schedule) for all configurations; every execution is
then completed fairly and checked at quiescence; then a fresh block and a transaction are injected and the same
completion is run."""
import hashlib

from .. import enc, ledger, refmodel, seams, simnet, thrscen, world
from ..world import K

LEVEL = 'model_checking'
BATCH = 3
_W = {}


def payload(parent, label):
    if label == 'M':
        return [], K[4], 120, max_block_kw(parent)
    k = {'c': 4, 'a': 5, 'b': 0, 'x': 1, 'y': 4}[label]
    return [], K[k], 120


def max_block_kw(parent):
    """reward outputs and reward data that make an (otherwise empty) block serialize to exactly MAX_BLOCK_SIZE bytes: the
    largest valid block there is"""
    from skepticoin.params import MAX_BLOCK_SIZE
    sub = refmodel.subsidy(parent.height + 1)
    n = (MAX_BLOCK_SIZE - 600) // 73
    for _ in range(400):
        outs = [(1, K[4])] * n + [(sub - n, K[5])]
        for pad in (0, 60, 120, 200):
            size = len(enc.enc_block(world.assemble(parent, [], K[4], parent.ts + 120, cb_outs=outs, cb_data=b'p' * pad, pow_ok=None)))
            if size >= MAX_BLOCK_SIZE:
                break
        if size < MAX_BLOCK_SIZE:
            n += 1
            continue
        for pad in range(0, 201):
            size = len(enc.enc_block(world.assemble(parent, [], K[4], parent.ts + 120, cb_outs=outs, cb_data=b'p' * pad, pow_ok=None)))
            if size == MAX_BLOCK_SIZE:
                return {'cb_outs': outs, 'cb_data': b'p' * pad}
            if size > MAX_BLOCK_SIZE:
                break
        n -= 1
    raise seams.HarnessError("no block of exactly MAX_BLOCK_SIZE bytes found")


def setup_worker():
    if _W:
        return _W
    import skepticoin.networking.remote_peer as rp
    ledger.setup()
    net = simnet.Net(seams.Clock(0))
    net.install()
    seams.rebind(rp, 'GET_BLOCKS_INVENTORY_SIZE', BATCH)
    uni = world.Universe(world.easy_root(), payload)
    _W.update(net=net, uni=uni, cs_cache={})
    return _W


def chain(common, branch=None, n=0):
    return ('c',) * common + ((branch,) * n if branch else ())


def configs(ctx):
    """name -> dict(chains=[path per node], dials=[(i, j)], small=bool)"""
    C = {}

    def two(name, a, b, small=True, both=False):
        C[name + ':A-dials-B'] = {'chains': [a, b], 'dials': [(0, 1)], 'small': small}
        C[name + ':B-dials-A'] = {'chains': [a, b], 'dials': [(1, 0)], 'small': small}
        if both:
            C[name + ':both-dial'] = {'chains': [a, b], 'dials': [(0, 1), (1, 0)], 'small': False}
    two('equal-3', chain(3), chain(3))
    two('ahead-by-1', chain(4), chain(3), both=True)
    two('ahead-by-3', chain(5), chain(2))
    two('ahead-by-7', chain(8), chain(1), small=False)
    two('other-at-genesis', chain(4), chain(0))
    # the longer chain contains a block of exactly the maximum size
    C['max-size-block:B-dials-A'] = {'chains': [chain(2) + ('M', 'c'), chain(2)], 'dials': [(1, 0)], 'small': False}
    two('fork-depth-2-longer', chain(2, 'a', 3), chain(2, 'b', 2), both=True)
    two('fork-depth-2-equal', chain(2, 'a', 2), chain(2, 'b', 2))
    two('fork-depth-12', chain(2, 'a', 13), chain(2, 'b', 12), small=False)
    two('fork-depth-17', chain(1, 'a', 18), chain(1, 'b', 17), small=False)
    if not ctx.quick:
        two('fork-depth-16', chain(1, 'a', 17), chain(1, 'b', 16), small=False)
        two('fork-depth-25', chain(1, 'a', 26), chain(1, 'b', 25), small=False)
    # three nodes: line 0-1-2, star (1 is the hub: same as line for 3 nodes, so hub dials / is dialled), triangle
    longc, mid, short = chain(2, 'a', 4), chain(2, 'b', 2), chain(1)
    for pos in range(3):
        ch = [short, short, short]
        ch[pos] = longc
        ch[(pos + 1) % 3] = mid
        C['line-long-at-%d' % pos] = {'chains': list(ch), 'dials': [(0, 1), (1, 2)], 'small': False}
        C['star-hub-dialled-long-at-%d' % pos] = {'chains': list(ch), 'dials': [(0, 1), (2, 1)], 'small': False}
        C['triangle-long-at-%d' % pos] = {'chains': list(ch), 'dials': [(0, 1), (1, 2), (2, 0)], 'small': False}
    # three nodes with a DEEP fork (beyond the locator's dense range) between two of them and a third that is ahead:
    # a node can be asked for blocks while it is itself still behind, and inventories overlap the asker's own chain
    A, B, Cc = chain(3, 'a', 22), chain(3, 'a', 17), chain(3, 'b', 12)
    C['deep-line-A-B-C'] = {'chains': [A, B, Cc], 'dials': [(0, 1), (1, 2)], 'small': False}
    C['deep-line-C-dials-B-dials-A'] = {'chains': [A, B, Cc], 'dials': [(2, 1), (1, 0)], 'small': False}
    C['deep-line-A-C-B'] = {'chains': [A, Cc, B], 'dials': [(0, 1), (1, 2)], 'small': False}
    if not ctx.quick:
        C['deep-triangle'] = {'chains': [A, B, Cc], 'dials': [(0, 1), (1, 2), (2, 0)], 'small': False}
    # a hub that is behind both of its neighbours (it can be fetching from both at once)
    C['hub-at-genesis-between-3-and-5'] = {'chains': [chain(3), chain(0), chain(5)], 'dials': [(1, 0), (1, 2)], 'small': False}
    C['hub-at-genesis-dialled'] = {'chains': [chain(3), chain(0), chain(5)], 'dials': [(0, 1), (2, 1)], 'small': False}
    # the transaction of the last phase is ALSO broadcast once early, at any point of the schedule (one deviation), when
    # some node is still behind and has to refuse it; it must nevertheless reach every pool when broadcast again later
    for base in ('other-at-genesis:A-dials-B', 'ahead-by-3:B-dials-A', 'line-long-at-0', 'fork-depth-2-longer:A-dials-B'):
        c = dict(C[base])
        c['early_tx'] = True
        c['small'] = False
        C[base + '+early-tx'] = c
    # a node with a longer chain joins AFTER the others have converged among themselves (start from a non-initial
    # state: connections that have already carried a complete download, with whatever bookkeeping that left behind)
    C['late-joiner-deep-fork'] = {'chains': [A, B, Cc], 'dials': [(1, 2)], 'late_dials': [(0, 1)], 'small': False}
    C['late-joiner-deep-fork-reverse-dials'] = {'chains': [A, B, Cc], 'dials': [(2, 1)], 'late_dials': [(1, 0)], 'small': False}
    # ... and the same with the downstream node not listening (as with --dont-listen / behind NAT), so that there is a
    # single connection between it and its neighbour instead of one in each direction
    C['late-joiner-deep-fork-C-not-listening'] = {'chains': [A, B, Cc], 'dials': [(2, 1)], 'late_dials': [(0, 1)],
                                                  'no_listen': [2], 'small': False}
    C['line-C-not-listening'] = {'chains': [A, B, Cc], 'dials': [(2, 1), (1, 0)], 'no_listen': [2], 'small': False}
    # the node at the end of the line does not listen and dials the hub, the hub dials the other end: whichever node holds the
    # longest chain, the hub's only link to one neighbour is a connection that neighbour opened
    for pos in range(3):
        ch = [short, short, short]
        ch[pos] = longc
        ch[(pos + 1) % 3] = mid
        C['line-end-not-listening-long-at-%d' % pos] = {'chains': list(ch), 'dials': [(2, 1), (1, 0)], 'no_listen': [2], 'small': False}
    C['late-joiner-shallow'] = {'chains': [chain(2, 'a', 6), chain(2, 'a', 3), chain(2, 'b', 2)], 'dials': [(1, 2)],
                                'late_dials': [(0, 1)], 'small': False}
    return C


class Sim:
    def __init__(self, cfg):
        W = setup_worker()
        net = W['net']
        uni = W['uni']
        self.net = net
        self.uni = uni
        self.cfg = cfg
        for lst in (net.escaped, net.dialling, net.connections, net.nodes):
            lst.clear()
        net.listeners.clear()
        net.rnd.counter = 0
        net._eph = 40000
        simnet.FakeSocket._next_fd = 1000
        tmax = max(uni.get(c).ts for c in cfg['chains'])
        net.clock.t = tmax + 1000
        self.t0 = net.clock.t
        self.nodes = []
        self.relays = []          # per node: {(kind, id): count}
        self.in_handler = False
        from skepticoin.coinstate import CoinState
        from skepticoin.networking.remote_peer import load_peers_from_list
        for i, c in enumerate(cfg['chains']):
            key = c
            cs = W['cs_cache'].get(key)
            if cs is None:
                cs = CoinState.empty().add_block_no_validation(uni.root.block)
                for j in range(1, len(c) + 1):
                    cs = cs.add_block_no_validation(uni.get(c[:j]).block)
                W['cs_cache'][key] = cs
            n = simnet.SimNode(net, 'n%d' % i, '10.0.0.%d' % (i + 1), cs, nonce=1000 + i,
                               listen=i not in cfg.get('no_listen', []))
            self.nodes.append(n)
            self.relays.append({})
            self._wrap(i, n)
        for (i, j) in cfg['dials']:
            self.nodes[i].nm.disconnected_peers.update(load_peers_from_list([('10.0.0.%d' % (j + 1), 2412, 'OUTGOING')]))
        late_nodes = {i for d in cfg.get('late_dials', []) for i in d} - {i for d in cfg['dials'] for i in d}
        self.late_nodes = late_nodes
        self.max_height = max(len(c) for i, c in enumerate(cfg['chains']) if i not in late_nodes)
        self.final_height = max(len(c) for c in cfg['chains'])
        self.ticks = [0] * len(self.nodes)
        self.advances = 0
        self.rr = 0                 # round-robin pointer into [tick n0, ..., tick nk, advance]
        self.choice_alts = []       # pending alternatives for random.choice inside the current tick
        self.choice_pick = 0
        self.dropped = []
        self.the_tx = None
        self.early_done = False
        if cfg.get('early_tx'):
            longest = max(cfg['chains'], key=len)
            src = uni.get(longest[:1])
            r = sorted(src.utxo.keys())[0]
            v, pk = src.utxo[r]
            key = [k for k in K if k.sk is not None and k.pub == pk][0]
            self.the_tx = world.mk_tx([(world.oref(r), key)], [(v - 10, K[2])])
            self.early_from = cfg['chains'].index(longest)
        self.held = set()          # sockets whose pending deliveries are postponed (a slow link) until nothing else is deliverable
        net.rnd.chooser = self._choose

    def _wrap(self, i, node):
        nm = node.nm
        ob, ot = nm.broadcast_block, nm.broadcast_transaction
        sim = self

        def bb(block, ob=ob):
            if sim.in_handler:
                k = ('block', enc.blockid(block))
                sim.relays[i][k] = sim.relays[i].get(k, 0) + 1
            return ob(block)

        def bt(tx, ot=ot):
            if sim.in_handler:
                k = ('tx', enc.txid(tx))
                sim.relays[i][k] = sim.relays[i].get(k, 0) + 1
            return ot(tx)
        nm.broadcast_block = bb
        nm.broadcast_transaction = bt

    def _choose(self, seq):
        # which peer to fetch from: an explorer choice (default: the first candidate)
        self.last_choice_n = len(seq)
        return seq[self.choice_pick % len(seq)]

    # ---- events
    def pipes(self):
        """(receiving node index, socket) for every registered socket with at least one complete frame pending"""
        out = []
        for i, n in enumerate(self.nodes):
            for sock in sorted(n.lp.selector.get_map().keys(), key=lambda s: s.fd):
                if sock.listening:
                    continue
                if len(sock.rx) >= 8:
                    ln = int.from_bytes(bytes(sock.rx[4:8]), 'big')
                    if len(sock.rx) >= 8 + ln:
                        out.append((i, sock, 8 + ln))
                elif sock.remote_closed and not sock.rx:
                    out.append((i, sock, 0))
        return out

    def enabled(self):
        ev = [('deliver', i, sock.fd) for i, sock, ln in self.pipes()]
        # one deviation can also postpone a whole connection direction (its frames stay in order)
        pp = self.pipes()
        for i, sock, ln in pp:
            # (postponing only matters when the same node has frames pending on another connection as well)
            if sock.fd not in self.held and sum(1 for j, s2, _ in pp if j == i) > 1:
                ev.append(('hold', i, sock.fd))
        for i, n in enumerate(self.nodes):
            if n.lsock is not None and n.lsock.backlog:
                ev.append(('accept', i))
        for i in range(len(self.nodes)):
            ev.append(('tick', i, 0))
            ev.append(('tick', i, 1))     # the same step, choosing the second fetch candidate (if there is more than one)
        ev += [('advance', 1), ('advance', 61)]
        if self.the_tx is not None and not self.early_done and self.nodes[self.early_from].nm.get_active_peers():
            ev.append(('early_tx',))
        return ev

    def default_event(self):
        p = self.pipes()
        if p:
            free = [x for x in p if x[1].fd not in self.held]
            if not free:
                self.held.clear()      # nothing else to deliver: the slow link catches up
                free = p
            return ('deliver', free[0][0], free[0][1].fd)
        for i, n in enumerate(self.nodes):
            if n.lsock is not None and n.lsock.backlog:
                return ('accept', i)
        k = self.rr % (len(self.nodes) + 1)
        if k < len(self.nodes):
            return ('tick', k, 0)
        return ('advance', 1)

    def do(self, ev):
        kind = ev[0]
        if kind == 'deliver':
            n = self.nodes[ev[1]]
            sock = [s for s in n.lp.selector.get_map() if s.fd == ev[2]]
            if not sock:
                return False
            sock = sock[0]
            ln = 0
            if len(sock.rx) >= 8:
                ln = 8 + int.from_bytes(bytes(sock.rx[4:8]), 'big')
            self.in_handler = True
            if ln:
                n.deliver(sock, ln)
            else:
                n.read_event(sock)
            self.in_handler = False
        elif kind == 'hold':
            self.held.add(ev[2])
        elif kind == 'early_tx':
            n = self.nodes[self.early_from]
            self.net.current = n
            n.nm.broadcast_transaction(self.the_tx)
            n.flush()
            self.early_done = True
        elif kind == 'accept':
            self.nodes[ev[1]].accept()
        elif kind == 'tick':
            n = self.nodes[ev[1]]
            self.choice_pick = ev[2]
            self.last_choice_n = 0
            n.tick()
            self.choice_pick = 0
            self.ticks[ev[1]] += 1
            # dials complete their handshake at once (the connection waits in the listener's backlog)
            for s in list(self.net.dialling):
                self.net.complete_dial(s)
                if s.error is not None:
                    n.read_event(s)
            if self.default_event_was_tick(ev):
                self.rr += 1
            if ev[2] == 1 and self.last_choice_n < 2:
                return False        # no second candidate existed: not a distinct event (only asked for by deviations)
        elif kind == 'advance':
            self.net.clock.t += ev[1]
            self.advances += 1
            if self.rr % (len(self.nodes) + 1) == len(self.nodes):
                self.rr += 1
        self.watch()
        return True

    def default_event_was_tick(self, ev):
        return self.rr % (len(self.nodes) + 1) == ev[1]

    def watch(self):
        for i, n in enumerate(self.nodes):
            for s, k in list(n.lp.selector.get_map().items()):
                pass
        for (c, s) in self.net.connections:
            if (c.closed or s.closed) and (c, s) not in self.dropped and c.owner is not s.owner \
                    and c.owner is not None and s.owner is not None:
                self.dropped.append((c, s))       # (a node that learns its own address dials and drops itself: not counted)

    # ---- observation
    def ledger_fp(self):
        out = []
        for n in self.nodes:
            cs = n.cm.coinstate
            out.append((frozenset(cs.block_by_hash.keys()), cs.current_chain_hash, tuple(enc.txid(t) for t in n.cm.transaction_pool)))
        return tuple(out)

    def canon(self):
        """canonical global state: ledger + pool + per-connection protocol state + peer book + queued frames with header
        fields id / context / timestamp erased and in_response_to reduced to zero / non-zero (handlers read a header only to
        test in_response_to == 0 and to copy id/context into replies and log lines)"""
        h = hashlib.sha256()
        T = int(self.net.clock())
        for i, n in enumerate(self.nodes):
            cs = n.cm.coinstate
            h.update(b'|node%d' % i)
            for b in sorted(cs.block_by_hash.keys()):
                h.update(b)
            h.update(cs.current_chain_hash)
            lk = n.cm.last_known_valid_coinstate
            h.update(lk.current_chain_hash if lk else b'-')
            for t in n.cm.transaction_pool:
                h.update(enc.txid(t))
            h.update(repr(sorted((min(t - T, 99), p.host, p.direction) for t, p in n.cm.actively_fetching_blocks_from_peers)).encode())
            h.update(repr((T - n.cm.started_at > 60, T % 60 == 0, T - self.t0 if T - self.t0 < 400 else 400)).encode())
            for key in sorted(n.nm.connected_peers):
                p = n.nm.connected_peers[key]
                h.update(repr((key[0], key[2], p.hello_sent, p.hello_received, p.waiting_for_inventory,
                               T - p.last_empty_inventory_response_at > 60, p.waiting_for_peers,
                               p.last_get_peers_sent_at is None, p.ban_score,
                               [(len(ms.message.items), ms.actually_used, [(it.hash, it.block_requested) for it in ms.message.items])
                                for ms in p.inventory_messages],
                               bytes(p.receiver.buffer), len(p.send_backlog), len(p.send_buffer))).encode())
            for key in sorted(n.nm.disconnected_peers):
                p = n.nm.disconnected_peers[key]
                h.update(repr((key, p.ban_score, None if p.last_connection_attempt is None else min(T - p.last_connection_attempt, 4000))).encode())
            h.update(repr(len(n.lsock.backlog) if n.lsock is not None else -1).encode())
            for sock in sorted(n.lp.selector.get_map().keys(), key=lambda s: s.fd):
                if sock.listening:
                    continue
                h.update(b'|pipe')
                frames, rest = simnet.frames_of(bytes(sock.rx))
                for f in frames:
                    pl = f[8:]
                    rsp = pl[9:13] != b'\x00\x00\x00\x00'
                    h.update(b'\x01' if rsp else b'\x00')
                    h.update(pl[53:])
                h.update(rest)
                h.update(b'c' if sock.remote_closed else b'o')
        h.update(repr(sorted((i, k, v) for i, r in enumerate(self.relays) for k, v in r.items())).encode())
        return h.digest()

    # ---- checks
    def safety(self, bad, where):
        if self.net.escaped:
            bad.append(('exception-escaped', "%s: exception escaped %s on %s: %s" % (where, self.net.escaped[0][1], self.net.escaped[0][0],
                                                                                      self.net.escaped[0][2])))
            self.net.escaped.clear()
        for i, r in enumerate(self.relays):
            for k, v in r.items():
                if v > 1:
                    bad.append(('relayed-more-than-once', "%s: node %d relayed %s %s %d times" % (where, i, k[0], k[1].hex()[:12], v)))
        if self.dropped:
            bad.append(('connection-dropped', "%s: a connection between honest nodes was dropped" % where))
            self.dropped_reported = True

    def complete_fairly(self, bad, where, expect_height, horizon=60):
        """round-robin with advance(61) until the ledgers are unchanged for 3 rounds"""
        stable = 0
        last = None
        rounds = 0
        while rounds < horizon:
            rounds += 1
            self.do(('advance', 61))
            for i in range(len(self.nodes)):
                # fairness also for the node's own random choice of the peer to fetch from: rotate through the candidates
                self.do(('tick', i, rounds))
                self.drain()
            self.drain()
            fp = self.ledger_fp()
            ok = all(n.cm.coinstate.head().height >= expect_height for i, n in enumerate(self.nodes) if i not in self.late_nodes)
            if fp == last and ok:
                stable += 1
                if stable >= 3:
                    break
            elif fp == last:
                stable += 1
                if stable >= 12:
                    break
            else:
                stable = 0
            last = fp
            if bad or getattr(self, 'livelock', False):
                break
        if getattr(self, 'livelock', False):
            bad.append(('livelock', "%s: nodes keep exchanging messages without any timer step (more than 3000 deliveries with "
                        "the clock standing still): quiescence is never reached" % where))
        self.safety(bad, where)
        return rounds

    def drain(self, limit=3000):
        n = 0
        if getattr(self, 'livelock', False):
            return 0
        while True:
            if n >= limit:
                # messages keep flowing although no timer stepped and the clock stands still: "no message in flight"
                # is never reached
                self.livelock = True
                break
            p = self.pipes()
            acc = [i for i, nd in enumerate(self.nodes) if nd.lsock is not None and nd.lsock.backlog]
            if not p and not acc:
                break
            if p:
                self.do(('deliver', p[0][0], p[0][1].fd))
            else:
                self.do(('accept', acc[0]))
            n += 1
        return n

    def join_late(self):
        from skepticoin.networking.remote_peer import load_peers_from_list
        for (i, j) in self.cfg.get('late_dials', []):
            self.nodes[i].nm.disconnected_peers.update(load_peers_from_list([('10.0.0.%d' % (j + 1), 2412, 'OUTGOING')]))
        self.late_nodes = set()
        self.max_height = self.final_height

    def check_converged(self, bad, where, expect_height, expect_head=None):
        for i, n in enumerate(self.nodes):
            if i in self.late_nodes:
                continue
            cs = n.cm.coinstate
            hh = cs.head().height
            if hh != expect_height:
                bad.append(('not-converged', "%s: node %d's head has height %d, the greatest height any node started with is %d" % (
                    where, i, hh, expect_height)))
                continue
            if expect_head is not None and cs.current_chain_hash != expect_head:
                bad.append(('not-converged', "%s: node %d's head is not the injected block" % (where, i)))
            # complete chain of its head
            b = cs.head()
            steps = 0
            while b.previous_block_hash != b'\x00' * 32:
                if b.previous_block_hash not in cs.block_by_hash:
                    bad.append(('incomplete-chain', "%s: node %d lacks the parent of its block at height %d" % (where, i, b.height)))
                    break
                b = cs.block_by_hash[b.previous_block_hash]
                steps += 1
            if b.previous_block_hash == b'\x00' * 32 and steps != hh:
                bad.append(('incomplete-chain', "%s: node %d's chain has %d links for height %d" % (where, i, steps, hh)))


def run_schedule(cfg, choices, deviation_window=70, want_points=False, phases=True):
    """choices: dict step -> event (deviations from the default schedule).  Runs `deviation_window` steps of the
    (deviated) default schedule, completes fairly, checks; then the two continuation phases."""
    sim = Sim(cfg)
    bad = []
    points = []
    trace = []
    step = 0
    while step < deviation_window:
        d = sim.default_event()
        if want_points:
            points.append((step, d, [e for e in sim.enabled() if e != d]))
        ev = choices.get(step, d)
        if ev != d and ev not in sim.enabled():
            return None, None, None          # this deviation is not available here
        ok = sim.do(ev)
        if ev != d and not ok:
            return None, None, None
        trace.append(ev)
        sim.safety(bad, "step %d" % step)
        if bad:
            break
        step += 1
    if not bad:
        sim.complete_fairly(bad, "completion", sim.max_height)
    if not bad:
        sim.check_converged(bad, "at quiescence", sim.max_height)
    if not bad and sim.cfg.get('late_dials'):
        sim.join_late()
        sim.complete_fairly(bad, "after the late node joined", sim.max_height)
        if not bad:
            sim.check_converged(bad, "after a node with a longer chain joined", sim.max_height)
    if not bad and phases:
        continuation(sim, bad, deep=not choices)
    return bad, points, sim


def continuation(sim, bad, deep=False):
    """a fresh valid block handed to one node as an unsolicited delivery; then a transaction broadcast by one node; then
    (deep: on the default schedule of every configuration) that transaction is confirmed by a block, a longer competing
    branch without it takes over, and another valid spend of the same output is broadcast"""
    uni = sim.uni
    # 1. fresh block on the common head, delivered to node 0 by an outside peer
    heads = {n.cm.coinstate.current_chain_hash for n in sim.nodes}
    hd = sim.nodes[0].cm.coinstate.head()
    path = None
    for c in sim.cfg['chains']:
        if len(c) == sim.max_height and uni.get(c).bid == hd.hash():
            path = c
    if path is None:
        return
    nb = uni.get(path + ('x',))
    sim.net.clock.t = max(sim.net.clock.t, nb.ts + 1)
    # hand it to a node whose head is the block's parent (the last such node)
    target = max(i for i, n in enumerate(sim.nodes) if n.cm.coinstate.current_chain_hash == uni.get(path).bid
                 and n.lsock is not None)
    from skepticoin.networking.messages import DataMessage, DATA_BLOCK, DATA_TRANSACTION
    ext = simnet.Remote(sim.net, sim.nodes[target], host='99.0.0.1')
    ext.hello(nonce=5)
    sim.nodes[target].tick()
    sim.in_handler = True
    ext.send(DataMessage(DATA_BLOCK, world.from_wire(nb.block)))
    sim.in_handler = False
    sim.complete_fairly(bad, "after a fresh block", sim.max_height + 1)
    if not bad:
        sim.check_converged(bad, "after a fresh block was delivered to node %d" % target, sim.max_height + 1, nb.bid)
    if bad:
        return
    # 2. a valid transaction broadcast by node 0 (as the send script does: broadcast only)
    hd = refnode(sim, uni)
    if hd is None:
        return
    src = [r for r, (v, pk) in hd.utxo.items() if pk in (K[4].pub, K[5].pub, K[0].pub, K[1].pub)]
    if not src:
        return
    r = sorted(src)[0]
    v, pk = hd.utxo[r]
    key = [k for k in K if k.sk is not None and k.pub == pk][0]
    tx = world.mk_tx([(world.oref(r), key)], [(v - 10, K[2])])
    if sim.the_tx is not None:
        tx = sim.the_tx
        # relays of the early broadcast do not count against the later one
        for rc in sim.relays:
            rc.pop(('tx', enc.txid(tx)), None)
        if refmodel.validate_tx(tx, hd.utxo):
            return
    sim.net.current = sim.nodes[0]
    sim.nodes[0].nm.broadcast_transaction(tx)
    sim.nodes[0].flush()
    sim.complete_fairly(bad, "after a transaction broadcast", sim.max_height + 1)
    tid = enc.txid(tx)
    for i, n in enumerate(sim.nodes):
        if tid not in [enc.txid(t) for t in n.cm.transaction_pool] and not bad:
            bad.append(('transaction-not-propagated', "a valid transaction broadcast by node 0 after heads agree did not reach node %d's pool" % i))
    if bad or not deep or sim.the_tx is not None:
        return
    # 3. the transaction is confirmed; a longer branch without it takes over; a second spend of the same output is broadcast
    try:
        c1 = world.Node(world.assemble(hd, [tx], K[5], hd.ts + 120, cb_data=b'confirms'), hd, path=hd.path + ('confirm',))
        f1 = world.Node(world.assemble(hd, [], K[4], hd.ts + 121, cb_data=b'fork 1'), hd, path=hd.path + ('fork1',))
        f2 = world.Node(world.assemble(f1, [], K[4], f1.ts + 120, cb_data=b'fork 2'), f1, path=f1.path + ('fork2',))
    except Exception:
        return
    sim.net.clock.t = max(sim.net.clock.t, f2.ts + 1)
    h0 = sim.max_height + 1
    for blk, hgt, label in ((c1, h0 + 1, "a block confirming the transaction"), (f1, h0 + 1, "the first block of a competing branch"),
                            (f2, h0 + 2, "the second block of the competing branch")):
        sim.in_handler = True
        ext.send(DataMessage(DATA_BLOCK, world.from_wire(blk.block)))
        sim.in_handler = False
        sim.complete_fairly(bad, "after " + label, hgt)
        if bad:
            return
    sim.check_converged(bad, "after a competing branch overtook the block that confirmed the transaction", h0 + 2, f2.bid)
    if bad:
        return
    tx2 = world.mk_tx([(world.oref(r), key)], [(v - 25, K[1])])
    if refmodel.validate_tx(tx2, f2.utxo):
        return
    sim.net.current = sim.nodes[0]
    sim.nodes[0].nm.broadcast_transaction(tx2)
    sim.nodes[0].flush()
    sim.complete_fairly(bad, "after the second transaction broadcast", h0 + 2)
    tid2 = enc.txid(tx2)
    for i, n in enumerate(sim.nodes):
        if tid2 not in [enc.txid(t) for t in n.cm.transaction_pool] and not bad:
            bad.append(('transaction-not-propagated', "after a reorganisation that un-confirmed an earlier spend, another valid spend of "
                        "the same output broadcast by node 0 did not reach node %d's pool" % i))


def refnode(sim, uni):
    """universe node of the common head (for the reference unspent set)"""
    hid = sim.nodes[0].cm.coinstate.current_chain_hash
    for p, n in uni.nodes.items():
        if n.bid == hid:
            return n
    return None


# ------------------------------------------------------------------------------------------------ searches

def extensions(cfg, base, bound, window, reduced_from):
    """all schedules that extend `base` (a tuple of deviations) by further deviations at later steps, up to `bound`"""
    sets = []
    level = [base]
    for b in range(len(base), bound):
        nxt = []
        for bs in level:
            last = bs[-1][0] if bs else -1
            _, pts, _ = run_schedule(cfg, dict(bs), deviation_window=window, want_points=True, phases=False)
            if pts is None:
                continue
            for step, d, alts in pts:
                if step <= last:
                    continue
                for a in alts:
                    if b + 1 >= reduced_from and not (env_only(a) and all(env_only(x[1]) for x in bs)):
                        continue
                    nxt.append(bs + ((step, a),))
        sets += nxt
        level = nxt
    return sets


def _dev_worker(arg):
    name, cfg, choice_sets = arg
    setup_worker()
    if isinstance(choice_sets, dict):
        # (base deviations, bound, window, reduced_from): enumerate the deeper levels here, in parallel
        b = choice_sets
        choice_sets = []
        for base in b['bases']:
            choice_sets += [base] + extensions(cfg, base, b['bound'], b['window'], b['reduced_from'])
    out = []
    n = 0
    for choices in choice_sets:
        bad, _, sim = run_schedule(cfg, dict(choices))
        if bad is None:
            continue
        n += 1
        for key, what in bad:
            out.append((key, what, name, choices))
        if out:
            break            # a counterexample is enough for this batch (keeps a failing run short)
    return n, out[:20]


def env_only(ev):
    if ev == ('early_tx',):
        return True
    """deviations that model the environment rather than a mere reordering of two enabled handlers: another fetch-peer
    choice, a slow link, a long pause"""
    return (ev[0] == 'tick' and ev[2] == 1) or ev[0] == 'hold' or ev == ('advance', 61)


def deviation_search(ctx, name, cfg, bound, window, reduced_from=99):
    """all schedules with <= bound deviations inside the first `window` steps; from `reduced_from` deviations on, every
    deviation of the schedule is drawn from the reduced alphabet env_only"""
    setup_worker()
    bad0, points, sim = run_schedule(cfg, {}, deviation_window=window, want_points=True, phases=False)
    sets = [()]
    level = [()]
    for b in range(bound):
        nxt = []
        for base in level:
            last = base[-1][0] if base else -1
            # choice points of the schedule with these deviations
            _, pts, _ = run_schedule(cfg, dict(base), deviation_window=window, want_points=True, phases=False) if base else (None, points, None)
            if pts is None:
                continue
            for step, d, alts in pts:
                if step <= last:
                    continue
                for a in alts:
                    if b + 1 >= reduced_from and not (env_only(a) and all(env_only(x[1]) for x in base)):
                        continue
                    nxt.append(base + ((step, a),))
        sets += nxt
        level = nxt
    return sets


def exhaustive_dfs(cfg, max_ticks, max_adv, max_states):
    """all interleavings of a small configuration, de-duplicated on the canonical global state"""
    setup_worker()
    seen = set()
    stack = [()]
    stats = {'states': 0, 'transitions': 0, 'capped': False, 'terminal': 0}
    bad_all = []
    while stack:
        trace = stack.pop()
        sim = Sim(cfg)
        bad = []
        ok = True
        for ev in trace:
            if not sim.do(ev):
                ok = False
                break
        if not ok:
            continue
        sim.safety(bad, "after %d events" % len(trace))
        if bad:
            bad_all += [(k, w, trace) for k, w in bad]
            break
        key = (sim.canon(), tuple(min(t, max_ticks) for t in sim.ticks), sim.advances)
        if key in seen:
            continue
        seen.add(key)
        stats['states'] += 1
        if stats['states'] >= max_states:
            stats['capped'] = True
            break
        succ = []
        for ev in sim.enabled():
            if ev[0] == 'tick' and sim.ticks[ev[1]] >= max_ticks:
                continue
            if ev[0] == 'advance' and sim.advances >= max_adv:
                continue
            if ev[0] == 'tick' and ev[2] == 1:
                continue        # two nodes: never more than one fetch candidate
            if ev[0] == 'hold':
                continue        # the exhaustive search already takes deliveries in every order
            succ.append(ev)
        stats['transitions'] += len(succ)
        if not [e for e in succ if e[0] in ('deliver', 'accept')]:
            # no message in flight: complete fairly from here and check (on this very object)
            stats['terminal'] += 1
            sim.complete_fairly(bad, "completion", sim.max_height)
            if not bad:
                sim.check_converged(bad, "at quiescence", sim.max_height)
            bad_all += [(k, w, trace) for k, w in bad]
            if bad:
                break
        for ev in succ:
            stack.append(trace + (ev,))
    return stats, bad_all


def _dfs_worker(arg):
    name, cfg, mt, ma, ms = arg
    st, bad = exhaustive_dfs(cfg, mt, ma, ms)
    best = {}
    for k, w, tr in bad:
        if k not in best or len(tr) < len(best[k][1]):
            best[k] = (w, tr)
    return name, st, [(k, v[0], v[1]) for k, v in best.items()]


def _any_worker(arg):
    kind, a = arg
    return kind, (_dfs_worker(a) if kind == 'dfs' else _dev_worker(a))


def run(ctx):
    # ---- the thread dimension first (its workers are forked before this module's seams are installed): a transaction
    #      broadcast from the main thread (as skepticoin-send does) while the networking thread handles deliveries
    thr = thrscen.run(ctx, 'MN', 1 if ctx.quick else 2, names=['broadcast-vs-valid-block-delivery',
                                                                'broadcast-vs-transaction-delivery'], only=['C10:'])
    ctx.cov['thread_schedules'] = thr
    setup_worker()
    C = configs(ctx)
    # ---- (ii) deviation-bounded, all configurations
    jobs = []
    nsched = {}
    for name, cfg in sorted(C.items()):
        bound = 1 if ctx.quick else 2
        window = 32 if ctx.quick else 24
        if not ctx.quick and name.startswith(('ahead-by-1:A', 'fork-depth-2-longer:A')):
            bound = 3
            window = 12
        if name.startswith('max-size'):
            bound = 0 if ctx.quick else 1       # (every execution moves a 200,000-byte block in 1024-byte reads)
        reduced_from = 99
        if not ctx.quick and len(cfg['chains']) > 2:
            reduced_from = 2         # three nodes: the second deviation from the reduced (environment) alphabet
        if name.startswith(('hub-at-genesis-between', 'triangle-long-at-0')):
            # two (three) deviations, the second (third) level restricted to environment deviations
            bound = 2 if ctx.quick else 3
            window = 26 if ctx.quick else 30
            reduced_from = 2 if ctx.quick else 3
        if ctx.quick and name.startswith(('deep-', 'late-', 'line-C-not', 'fork-depth-1')):
            window = 14          # long chains: each execution is several times more expensive
        # level 0 and 1 are enumerated here; deeper levels inside the workers (one job per group of first deviations)
        sets = deviation_search(ctx, name, cfg, min(bound, 1), window, reduced_from)
        nsched[name] = len(sets)
        if bound <= 1:
            k = max(1, len(sets) // 150)
            jobs += [(name, cfg, sets[i::k]) for i in range(k)]
        else:
            firsts = [s_ for s_ in sets if len(s_) == 1]
            jobs.append((name, cfg, [()]))
            k = max(1, len(firsts) // 6)
            for i in range(k):
                jobs.append((name, cfg, {'bases': firsts[i::k], 'bound': bound, 'window': window, 'reduced_from': reduced_from}))
    ctx.log("level-0/1 schedules", sum(nsched.values()), "in", len(jobs), "jobs (deeper levels are enumerated in the workers)")
    small = [(n, c) for n, c in sorted(C.items()) if c['small']]
    cap = 20000 if ctx.quick else 80000
    djobs = [('dfs', (n, c, 2, 0 if ctx.quick else 1, cap)) for n, c in small]
    allres = ctx.pmap(_any_worker, djobs + [('dev', j) for j in jobs])
    res = [r for k, r in allres if k == 'dev']
    dres = [r for k, r in allres if k == 'dfs']
    nexec = 0
    for n, out in res:
        nexec += n
        for key, what, name, choices in out:
            ctx.violation(key, "%s; configuration %s, deviations from the round-robin schedule %s" % (what, name, list(choices)),
                          {'mode': 'dev', 'cfg': name, 'choices': [[s, list(e)] for s, e in choices]})
    # ---- (i) exhaustive, small 2-node configurations
    dstates = dtrans = 0
    capped = []
    for name, st, bad in dres:
        dstates += st['states']
        dtrans += st['transitions']
        if st['capped']:
            capped.append(name)
        for key, what, tr in bad:
            ctx.violation(key, "%s; configuration %s, exhaustive search, events %s" % (what, name, list(tr)),
                          {'mode': 'dfs', 'cfg': name, 'trace': [list(e) for e in tr]})
    ctx.cov.update({
        'states': dstates + nexec, 'transitions': dtrans + nexec, 'traces_validated_against_impl': nexec,
        'samples': [{'configuration': j[0], 'deviations': [[s_, list(e_)] for s_, e_ in (j[2][-1] if isinstance(j[2], list) and j[2] else ())]}
                    for j in jobs[:3]],
        'configurations': len(C), 'schedules_per_configuration': nsched, 'deviation_executions': nexec,
        'exhaustive_configurations': len(small), 'exhaustive_states': dstates, 'exhaustive_transitions': dtrans,
        'exhaustive_state_cap': cap, 'exhaustive_capped': capped, 'exhaustive': not capped,
        'rule': "(ii) for each of %d configurations (chain pairs/triples: equal, ahead by 1/3/7 = up to 3 inventory batches of %d, "
                "one at genesis, forks at depth 2/12/17 with longer or equal branches; who dials whom; 3-node line, star, "
                "triangle with the longest chain at each position) every schedule with <= 1 (selected: 2%s) deviations from the "
                "round-robin default inside the first steps, each completed fairly (advance 61 s, tick all, deliver all, until "
                "ledgers are unchanged for 3 rounds; horizon 60 rounds) and continued with an injected block and a broadcast "
                "transaction; (i) exhaustive DFS over all interleavings of deliveries / accepts / <= 2 ticks per node / <= %d clock "
                "advances for the small 2-node configurations, de-duplicated on a canonical global state (cap %d states per "
                "configuration; capped ones are listed)" % (len(C), BATCH, "" if ctx.quick else "; thorough: 2, selected 3", 0 if ctx.quick else 1, cap),
    })
    ctx.assumptions.append("inventory batch size rebound to %d; reliable links, no connection is closed by the scheduler; "
                           "delivery granularity is one frame (fragmentation independence is C11)" % BATCH)


def replay(data, ctx):
    if 'thread_scenario' in data:
        return thrscen.replay(data)
    setup_worker()
    C = configs(type(ctx)(ctx.pid, 'thorough', 0))
    cfg = C[data['cfg']]
    if data['mode'] == 'dev':
        choices = {s: tuple(e) for s, e in data['choices']}
        bad, _, _ = run_schedule(cfg, choices)
        return list(bad or [])
    sim = Sim(cfg)
    bad = []
    for ev in data['trace']:
        sim.do(tuple(ev))
    sim.safety(bad, "replay")
    if not bad:
        sim.complete_fairly(bad, "completion", sim.max_height)
    if not bad:
        sim.check_converged(bad, "at quiescence", sim.max_height)
    return bad
