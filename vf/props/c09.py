"""C09 - relay path: only fully valid blocks enter state and the store; rejected ones leave no trace.
One real node with the real DiskInterface and a file BlockStore, a deliverer D and an observer O (both greeted),
a pending transaction in the pool.  BFS over delivery sequences (state = history, replayed on fresh objects),
de-duplicated on the node's observable state."""
import contextlib
import io
import os
import shutil
import struct

from .. import cands, enc, ledger, refmodel, seams, simnet, thrscen, world
from ..world import K

LEVEL = 'model_checking'
PREFIX = (('f',), ('f', 's'))

_W = {}


def setup_worker():
    """per-process world: universe, base coinstate, template store"""
    if _W:
        return _W
    from skepticoin import blockstore
    from skepticoin.coinstate import CoinState
    ledger.setup()
    net = simnet.Net(seams.Clock(0))
    net.install()
    uni = ledger.tx_universe('genesis')
    base_nodes = [uni.get(p) for p in PREFIX]
    now0 = base_nodes[-1].ts + 5000
    cs = CoinState.zero()
    for n in base_nodes:
        cs = cs.add_block(n.block, now0)
    tpl = os.path.join(os.getcwd(), 'c09-template-%d.db' % os.getpid())
    if os.path.exists(tpl):
        os.remove(tpl)
    with contextlib.redirect_stdout(io.StringIO()):
        st = blockstore.BlockStore(tpl)
    for n in base_nodes:
        st.add_block_to_buffer(n.block)
    st.flush_blocks_to_disk()
    st.close()
    seams.rebind(blockstore.DefaultBlockStore, 'instance', blockstore.DefaultBlockStore.instance)
    _W.update(net=net, uni=uni, base_cs=cs, tpl=tpl, now0=now0, base_nodes=base_nodes)
    return _W


class World:
    """fresh node + store for one execution"""

    def __init__(self):
        from skepticoin import blockstore
        from skepticoin.networking.disk_interface import DiskInterface
        W = setup_worker()
        self.W = W
        self.uni = W['uni']
        net = W['net']
        net.escaped.clear()
        net.listeners.clear()
        net.dialling.clear()
        net.connections.clear()
        net.nodes.clear()
        net.clock.t = W['now0']
        net._eph = 40000          # every execution starts from the same ephemeral-port counter
        self.net = net
        self.path = W['tpl'] + '.run%d' % os.getpid()
        shutil.copyfile(W['tpl'], self.path)
        with contextlib.redirect_stdout(io.StringIO()):
            self.store = blockstore.BlockStore(self.path)
        blockstore.DefaultBlockStore.instance = self.store

        class Disk(DiskInterface):
            def save_transaction_for_debugging(self, transaction):
                pass
        self.node = simnet.SimNode(net, 'N', '10.0.0.1', W['base_cs'], disk=Disk())
        self.D = simnet.Remote(net, self.node, host='5.5.5.5')
        self.O = simnet.Remote(net, self.node, host='6.6.6.6')
        # the deliverer's greeting carries a header time stamp one hour ahead of the node's clock (the sender chooses
        # that field; nothing a peer says about time may move the node's own clock); the observer's is honest
        # a second observer repeats its greeting on the same connection (nothing in the protocol forbids that): it is one
        # peer all the same
        self.O2 = simnet.Remote(net, self.node, host='6.6.6.7')
        self.D.hello(nonce=1, ts=int(W['now0']) + 3600)
        self.O.hello(nonce=2)
        self.O2.hello(nonce=4)
        self.node.tick()
        self.O2.hello(nonce=4)
        self.node.tick()
        self.D.received()
        self.O.received()
        self.O2.received()
        # one valid pending transaction (the 'a' spend at the base head)
        head = W['base_nodes'][-1]
        self.pending = ledger.tx_payload(head, 'a')[0][0]
        self.node.cm.add_transaction_to_pool(self.pending)
        self.waited = 0
        self.stored = {(): self.uni.root}
        for n in W['base_nodes']:
            self.stored[n.path] = n          # reference: path -> node of blocks legitimately in state
        self.fc = refmodel.ForkChoice()
        self.fc.add(self.uni.root)
        for n in W['base_nodes']:
            self.fc.add(n)

    def close(self):
        try:
            self.store.close()
        except Exception:
            pass

    # ---- observation
    def snapshot(self):
        cm = self.node.cm
        cs = cm.coinstate
        # what a restarted node would find: committed rows, read through a separate connection
        import sqlite3
        try:
            con = sqlite3.connect(self.path, timeout=0.2)
            rows = sorted(r[0] for r in con.execute("select block_hash from chain"))
            con.close()
        except Exception as e:
            rows = ['unreadable: %r' % (e,)]
        return {
            'state_ids': frozenset(cs.block_by_hash.keys()), 'head': cs.current_chain_hash,
            'pool': tuple(enc.txid(t) for t in cm.transaction_pool),
            'rows': tuple(rows), 'buffer': tuple(enc.blockid(b) for b in self.store.write_buffer),
            'lkv': cm.last_known_valid_coinstate.current_chain_hash if cm.last_known_valid_coinstate else None,
            'd_alive': self.D.alive, 'o_alive': self.O.alive,
        }

    def deliverer(self):
        if not self.D.alive and not self.O.alive:
            # both earlier connections were dropped by the node: deliver over a fresh, greeted connection
            self.D = simnet.Remote(self.net, self.node, host='5.5.5.%d' % (7 + self.net._eph % 200))
            self.D.hello(nonce=3)
            self.node.tick()
            self.D.received()
        return self.D if self.D.alive else self.O

    def deliver_block(self, block, now, in_response_to=0, header_ts=None):
        """returns (relays seen by the non-delivering observer, deliverer).  The time stamp in the message header is the
        sender's to choose: by default it is forged to the block's own time stamp (whatever the block claims about time, the
        envelope agrees) - the node's clock is `now`"""
        self.net.clock.t = now
        who = self.deliverer()
        other = self.O if who is self.D else self.D
        pl_block = enc.enc_block(block)
        from skepticoin.networking.messages import MessageHeader
        who.msg_id += 1
        try:
            hts = int(block.header.summary.timestamp) if header_ts is None else int(header_ts)
        except Exception:
            hts = int(now)
        if in_response_to:
            # bulk download: the node has asked this peer for the block (it was listed in an inventory first)
            who.announce([enc.blockid(block)], in_response_to)
        h = MessageHeader(min(max(hts, 0), 2**32 - 1), who.msg_id, in_response_to, 4242)
        data = h.serialize() + b'\x00\x04' + b'\x00' + b'\x00\x00' + pl_block
        who.send_raw(simnet.MAGIC + struct.pack(">I", len(data)) + data)
        bid = enc.blockid(block)
        relays = 0
        if other.alive or other.sock.rx:
            for hh, m in other.received():
                if type(m).__name__ == 'DataMessage' and m.data_type == b'\x00\x00' and enc.blockid(m.data) == bid:
                    relays += 1
        if self.O2.alive or self.O2.sock.rx:
            relays2 = sum(1 for hh, m in self.O2.received()
                          if type(m).__name__ == 'DataMessage' and m.data_type == b'\x00\x00' and enc.blockid(m.data) == bid)
            if relays2 != relays and other.alive and relays2 > relays:
                relays = relays2        # the observer that greeted twice got more copies than the one that greeted once
        who.received()
        return relays, who, other


def alphabet(w):
    """events enabled in the current reference state: list of (name, block, now, parent node or None, kind)"""
    uni = w.uni
    out = []
    head = w.fc.head()
    now = head.ts + 3000 + 600 * w.waited
    stored_paths = set(w.stored.keys())

    def uni_block(path, name):
        n = uni.get(path)
        if n is not None:
            out.append((name, n.block, max(now, n.ts), n.parent if n.parent.path in stored_paths else None, 'valid', n))
    # valid extensions of the head
    for lab in ('e', 'a', 'b'):
        if head.path + (lab,) not in stored_paths:
            uni_block(head.path + (lab,), 'valid-on-head-' + lab)
    # valid blocks on side forks: children of the head's parent and grandparent
    for anc, nm in ((head.parent, 'parent'), (head.parent.parent if head.parent else None, 'grandparent')):
        if anc is None:
            continue
        for lab in ('e', 'c'):
            p = anc.path + (lab,)
            if p not in stored_paths and p != head.path:
                uni_block(p, 'valid-on-%s-%s' % (nm, lab))
    # children of stored non-head tips (so that a side fork can overtake)
    for p in sorted(stored_paths):
        n = w.stored[p]
        if n is not head and n.height >= head.height - 1 and p + ('e',) not in stored_paths and n.height > 1:
            uni_block(p + ('e',), 'valid-on-side-tip')
            break
    # ten minutes pass without any delivery (once per sequence)
    if not w.waited:
        out.append(('ten-minutes-pass', None, now, None, 'wait', None))
    # duplicates
    out.append(('duplicate-of-head', head.block, now, head.parent, 'duplicate', head))
    out.append(('duplicate-of-old', w.W['base_nodes'][0].block, now, uni.root, 'duplicate', w.W['base_nodes'][0]))
    # orphan: grandchild of the head whose parent is not stored
    if head.path + ('e',) not in stored_paths:
        g = uni.get(head.path + ('e', 'e'))
        out.append(('orphan', g.block, max(now, g.ts), None, 'orphan', g))
    # a body-tampered copy (same header, hence same id) of a valid block, and that valid block delivered too early
    V = uni.get(head.path + ('e',))
    if V is not None and V.path not in stored_paths:
        from skepticoin.datatypes import Block
        cb = V.block.transactions[0]
        cb2 = world.coinbase_tx(V.height, [(o.value, o.public_key) for o in cb.outputs], b'tampered')
        out.append(('broken-tampered-body-same-id-as-valid-e', Block(V.block.header, [cb2]), max(now, V.ts), head, 'broken', None))
        out.append(('broken-valid-e-delivered-31s-early', V.block, V.ts - 31, head, 'broken', None))
    # broken blocks on the head, one per rule the validator distinguishes
    pick = {
        'C05': ['id-not-below-target', 'time-far-future', 'target-minus-1', 'time-equals-parent', 'height-parent+0-reward-matching',
                'height-parent+2-reward-matching', 'reward-height-plus-1', 'evidence-block-hash-bit', 'evidence-chain-sample-bit',
                'evidence-of-other-tx-list', 'unknown-parent'],
        'C02': ['no-transactions', 'reward-two-null-inputs', 'reward-real-reference', 'reward-data-201', 'output-value-0',
                'two-outputs-max-each', 'reward-plus-1', 'overspend-by-1', 'no-reward-tx', 'reward-not-first'],
        'C01': ['same-ref-twice-in-tx', 'same-ref-in-two-txs', 'missing-tx', 'already-spent-in-ancestry', 'signed-by-foreign-key',
                'placeholder-signable-equivalent', 'spend-of-invalid-point-key', 'spend-earlier-tx-of-block',
                'sibling-fork-output-e', 'value-changed-after-signing'],
    }
    fams = {'C05': cands.c05_candidates, 'C02': cands.c02_candidates, 'C01': cands.c01_candidates}
    for fam, names in pick.items():
        key = (fam, head.path)
        if key not in _cand_cache:
            _cand_cache[key] = {c.name: c for c in fams[fam](head, uni)}
        for nm in names:
            c = _cand_cache[key].get(nm)
            if c is not None and c.wire() is not None:
                out.append(('broken-' + nm, c.block, c.now if nm.startswith('time-') else max(now, c.now),
                            head if nm != 'unknown-parent' else None, 'broken', c))
    # wrong merkle root, oversize block
    key = ('extra', head.path)
    if key not in _cand_cache:
        ex = {}
        ex['wrong-merkle-root'] = world.assemble(head, [], K[4], head.ts + 120, merkle=enc.sha256d(b'not the root'))
        big = world.coinbase_tx(head.height + 1, [(1, K[1])] * 2800)
        ex['oversize'] = world.assemble(head, [], K[4], head.ts + 120, cb_tx=big)
        _cand_cache[key] = ex
    for nm, b in _cand_cache[key].items():
        out.append(('broken-' + nm, b, now, head, 'broken', None))
    return out


_cand_cache = {}


def execute(trace, check_last=True, baseline=False):
    """replays a trace (list of event names) on a fresh world.  returns (world, violations, last outcome)"""
    w = World()
    w.entered_log = []
    bad = []
    outcome = None
    entered_log = []
    try:
        for i, ev in enumerate(trace):
            al = {e[0]: e for e in alphabet(w)}
            if ev not in al:
                return w, None, None
            outcome = step(w, al[ev], bad, trace[:i + 1])
            entered_log.append(outcome[0] == 'entered')
            w.entered_log = list(entered_log)
        # "rejected deliveries leave no trace": a reference-valid, new block with a stored parent that is NOT accepted here
        # must also not be accepted by a node that received only the accepted deliveries of this sequence
        if trace and not baseline and outcome == ('not-entered', 'ref-valid'):
            kept = tuple(ev for ev, ent in zip(trace[:-1], entered_log[:-1]) if ent) + (trace[-1],)
            if kept != tuple(trace):
                w2, bad2, out2 = execute(kept, baseline=True)
                w2.close()
                if out2 is not None and out2[0] == 'entered':
                    dropped = [ev for ev, ent in zip(trace[:-1], entered_log[:-1]) if not ent]
                    bad.append(('rejected-delivery-impairs-later-block', "valid block '%s' is not accepted after the rejected "
                                "deliveries %s, but is accepted by a node that never saw them" % (trace[-1], dropped), tuple(trace)))
        return w, bad, outcome
    except Exception:
        w.close()
        raise


def step(w, event, bad, trace):
    name, block, now, parent, kind, obj = event
    if kind == 'wait':
        before = w.snapshot()
        w.waited += 1
        w.net.clock.t = now + 600
        w.node.tick()
        w.D.received()
        w.O.received()
        after = w.snapshot()
        if (after['state_ids'], after['rows'], after['pool'], after['head']) != (before['state_ids'], before['rows'], before['pool'], before['head']):
            bad.append(('idle-time-changes-state', "ten idle minutes changed chain state / store / pool", trace))
        if w.net.escaped:
            bad.append(('exception-escaped', "manager step after ten idle minutes: %s" % (w.net.escaped[0],), trace))
            w.net.escaped.clear()
        return 'not-entered', 'ref-invalid'
    before = w.snapshot()
    bid = enc.blockid(block)
    was_new = bid not in before['state_ids']
    head_before = w.fc.head()
    relays, who, other = w.deliver_block(block, now)
    after = w.snapshot()
    entered = bid in after['state_ids'] and was_new
    esc = list(w.net.escaped)
    if esc:
        bad.append(('exception-escaped', "delivery '%s': exception escaped the node's event handling: %s" % (name, esc[0]), trace))
        w.net.escaped.clear()
    # reference verdict
    ref_parent = parent if (parent is not None and parent.bid in before['state_ids']) else None
    tags = refmodel.validate_block(block, ref_parent, now) if was_new else set()
    ref_ok = was_new and ref_parent is not None and not tags
    outcome = 'entered' if entered else 'not-entered'
    if entered and not ref_ok:
        bad.append(('invalid-block-entered-state', "delivery '%s' entered chain state although it breaks %s" % (
            name, sorted(tags) or 'parent not stored'), trace))
    if entered:
        if kind == 'valid':
            w.stored[obj.path] = obj
            w.fc.add(obj)
        became_head = after['head'] == bid
        if bid not in after['rows']:
            bad.append(('accepted-block-not-stored', "delivery '%s' entered chain state but is not in the block store after the "
                        "handler returned (buffer holds %d)" % (name, len(after['buffer'])), trace))
        exp_rel = 1 if became_head else 0
        if relays != exp_rel and other.alive:
            bad.append(('relay-count', "delivery '%s' (%s) was relayed %d time(s) to the other peer, expected %d" % (
                name, 'new head' if became_head else 'not head', relays, exp_rel), trace))
    else:
        # nothing may change: chain state, store, buffer, pool; nothing relayed
        if after['state_ids'] != before['state_ids'] or after['head'] != before['head']:
            bad.append(('rejected-delivery-changed-state', "delivery '%s' did not enter state but chain state changed "
                        "(%d -> %d blocks)" % (name, len(before['state_ids']), len(after['state_ids'])), trace))
        if after['rows'] != before['rows']:
            bad.append(('rejected-block-in-store', "delivery '%s' changed the block store rows" % name, trace))
        if after['buffer'] != before['buffer'] or (after['buffer'] and not before['buffer']):
            bad.append(('rejected-block-left-in-write-buffer', "delivery '%s' was not accepted but %d block(s) stay in the store's "
                        "write buffer (they would be written by the next flush)" % (name, len(after['buffer'])), trace))
        if after['pool'] != before['pool']:
            bad.append(('rejected-delivery-changed-pool', "delivery '%s' was not accepted but the pending pool changed" % name, trace))
        if relays:
            bad.append(('rejected-block-relayed', "delivery '%s' was not accepted but was relayed" % name, trace))
    if kind == 'duplicate' and (after['state_ids'], after['rows'], after['pool'], after['head']) != (
            before['state_ids'], before['rows'], before['pool'], before['head']):
        bad.append(('duplicate-has-effect', "repeated delivery '%s' changed something" % name, trace))
    return outcome, ('ref-valid' if ref_ok else 'ref-invalid')


def closing_rejection(w, bad, trace):
    """ten minutes later a relayed block that passes the stand-alone checks but fails full validation must still leave no
    trace, whatever the sequence before did (hidden state left behind by earlier rejections included)"""
    head = w.fc.head()
    key = ('C01', head.path)
    if key not in _cand_cache:
        _cand_cache[key] = {c.name: c for c in cands.c01_candidates(head, w.uni)}
    c = _cand_cache[key].get('signed-by-foreign-key')
    if c is None or c.wire() is None:
        return
    now = head.ts + 3000 + 600 * (w.waited + 1)
    w.net.clock.t = now
    w.node.tick()
    before = w.snapshot()
    w.deliver_block(c.block, max(now, c.now))
    after = w.snapshot()
    bid = enc.blockid(c.block)
    t = trace + ('ten-minutes-pass', 'closing-broken-signed-by-foreign-key')
    if bid in after['state_ids']:
        bad.append(('invalid-block-entered-state', "closing delivery of a block signed by a foreign key entered chain state", t))
    if bid in after['rows'] or after['rows'] != before['rows']:
        bad.append(('rejected-block-in-store', "ten minutes after the sequence, a relayed block that fails full validation is "
                    "written to the block store", t))
    if after['buffer']:
        bad.append(('rejected-block-left-in-write-buffer', "closing rejected delivery stays in the write buffer", t))
    if w.net.escaped:
        bad.append(('exception-escaped', "closing rejected delivery: %s" % (w.net.escaped[0],), t))
        w.net.escaped.clear()
    w.waited += 1


def closing_check(w, bad, trace):
    """a fresh valid block on the head must still get stored"""
    if not getattr(w, 'is_baseline', False):
        closing_rejection(w, bad, trace)
    head = w.fc.head()
    # (preferably the block 'e' on the head: the one whose tampered / premature copies are in the alphabet)
    for lab in ('e', 'y', 'x'):
        n = w.uni.get(head.path + (lab,))
        if n is not None and n.path not in w.stored:
            break
    else:
        return
    relays, who, other = w.deliver_block(n.block, n.ts + 3000 + 600 * w.waited)
    s = w.snapshot()
    if n.bid in s['state_ids'] and n.bid not in s['rows']:
        bad.append(('later-block-not-stored', "after the sequence a fresh valid block is accepted into state but not written to the "
                    "store (write buffer holds %d blocks)" % len(s['buffer']), trace + ('closing-valid',)))
    elif n.bid not in s['state_ids']:
        # acceptance of valid blocks as such is not what C09 states - but rejected deliveries must leave no trace: a node
        # that received only the accepted deliveries of this sequence must not behave differently
        if not getattr(w, 'is_baseline', False):
            kept = tuple(ev for ev, ent in zip(trace, w.entered_log) if ent)
            if kept != tuple(trace):
                wb, bb, ob = execute(kept, baseline=True)
                if bb is not None:
                    wb.is_baseline = True
                    cb = []
                    rb = closing_check(wb, cb, kept)
                    wb.close()
                    if rb == 'closing-stored':
                        dropped = [ev for ev, ent in zip(trace, w.entered_log) if not ent]
                        bad.append(('rejected-delivery-impairs-later-block', "a fresh valid block on the head is not accepted after "
                                    "the rejected deliveries %s, but is accepted and stored by a node that never saw them" % dropped,
                                    trace + ('closing-valid',)))
                else:
                    wb.close()
        return 'closing-not-accepted'
    if w.net.escaped:
        bad.append(('exception-escaped', "closing delivery: %s" % (w.net.escaped[0],), trace + ('closing-valid',)))
    return 'closing-stored'


BULK_INVALID = ('time-equals-parent', 'signed-by-foreign-key', 'reward-plus-1', 'missing-tx', 'same-ref-in-two-txs')


def bulk_then_rejected(arg):
    """a start state with blocks pending from a bulk download (delivered as answers to a request: applied but not yet
    validated or flushed), then a relayed block that is rejected, then valid relayed blocks on whatever the node's head is:
    the rejection must not impair the storing of the later blocks"""
    nbulk, invalid = arg
    setup_worker()
    w = World()
    uni = w.uni
    bad = []
    tr = ('bulk-answer x%d' % nbulk, 'relay:broken-' + invalid, 'relay:valid', 'relay:valid')
    by_id = {}

    def node_of(bid, base):
        # blocks of this scenario are all on the line base, base/e, base/e/e, ... and their 'a' / 'e' children
        for n in list(by_id.values()):
            if n.bid == bid:
                return n
        return None
    try:
        head = w.W['base_nodes'][-1]
        for n in w.W['base_nodes']:
            by_id[n.path] = n
        now = head.ts + 3000
        path = head.path
        for i in range(nbulk):
            n = uni.get(path + ('e',))
            by_id[n.path] = n
            w.deliver_block(n.block, max(now, n.ts), in_response_to=77)
            path = n.path
        H = node_of(w.node.cm.coinstate.current_chain_hash, head)
        if H is None:
            return bad
        fam = cands.c05_candidates if invalid.startswith('time') else (cands.c02_candidates if invalid.startswith('reward') else cands.c01_candidates)
        cl = [c for c in fam(H, uni) if c.name == invalid and c.wire() is not None]
        if not cl:
            return bad
        X = cl[0]
        w.deliver_block(X.block, max(now, X.now) if not invalid.startswith('time') else X.now)
        s = w.snapshot()
        if enc.blockid(X.block) in s['state_ids'] or enc.blockid(X.block) in s['rows']:
            bad.append(('invalid-block-entered-state', "the rule-breaking relayed block entered chain state / the store", tr[:2]))
        for k in (1, 2):
            H2 = node_of(w.node.cm.coinstate.current_chain_hash, head)
            if H2 is None:
                break
            C = None
            for lab in ('a', 'e'):
                c = uni.get(H2.path + (lab,))
                if c is not None and c.bid not in w.snapshot()['state_ids']:
                    C = c
                    break
            if C is None:
                break
            by_id[C.path] = C
            w.deliver_block(C.block, C.ts + 3000)
            s = w.snapshot()
            if C.bid in s['state_ids'] and C.bid not in s['rows']:
                bad.append(('later-block-not-stored', "with %d bulk-download block(s) pending, after the rejected relay of '%s' valid "
                            "relayed block no. %d is accepted into state but not written to the store (buffer holds %d)" % (
                                nbulk, invalid, k, len(s['buffer'])), tr[:2 + k]))
        if w.net.escaped:
            bad.append(('exception-escaped', "bulk-pending scenario: %s" % (w.net.escaped[0],), tr))
            w.net.escaped.clear()
    finally:
        w.close()
    return bad


def canon(w):
    s = w.snapshot()
    return (s['state_ids'], s['head'], s['pool'], s['rows'], s['buffer'], s['lkv'], s['d_alive'], s['o_alive'], w.waited)


def _expand(trace):
    """expand one state: try every enabled event; returns list of (event name, new canonical key or None, violations, outcome)"""
    res = []
    w, bad0, _ = execute(trace)
    names = [e[0] for e in alphabet(w)]
    w.close()
    for nm in names:
        t2 = tuple(trace) + (nm,)
        w, bad, outcome = execute(t2)
        if bad is None:
            w.close()
            continue
        # only the violations produced by the last step are new
        bad = [b for b in bad if b[2] == t2]
        key = canon(w)       # before the closing check perturbs the world
        cbad = []
        cl = closing_check(w, cbad, t2)
        w.close()
        res.append((nm, key, bad + cbad, outcome, cl))
    return trace, res


def run(ctx):
    setup_worker()
    depth = 3 if ctx.quick else 4
    w, _, _ = execute(())
    seen = {canon(w)}
    w.close()
    frontier = [()]
    stats = {'states': 1, 'transitions': 0, 'entered': 0, 'rejected': 0, 'closing_stored': 0, 'closing_not_accepted': 0}
    hist = {}
    sample = None
    for d in range(depth):
        res = ctx.pmap(_expand, frontier)
        nxt = []
        for trace, lst in res:
            for nm, key, bad, outcome, cl in lst:
                stats['transitions'] += 1
                e = hist.setdefault(nm, [0, 0])
                e[0 if outcome[0] == 'entered' else 1] += 1
                stats['entered' if outcome[0] == 'entered' else 'rejected'] += 1
                if cl == 'closing-stored':
                    stats['closing_stored'] += 1
                elif cl == 'closing-not-accepted':
                    stats['closing_not_accepted'] += 1
                for k, what, tr in bad:
                    ctx.violation(k, "%s; deliveries %s" % (what, list(tr)), {'trace': list(tr)})
                if key not in seen:
                    seen.add(key)
                    stats['states'] += 1
                    nxt.append(tuple(trace) + (nm,))
                    sample = list(trace) + [nm]
        frontier = nxt
        ctx.log("depth", d + 1, "new states", len(nxt))
    # ---- start states with bulk-download blocks pending
    bjobs = [(nb, inv) for nb in (1, 2) for inv in BULK_INVALID]
    for (nb, inv), bad in zip(bjobs, ctx.pmap(bulk_then_rejected, bjobs)):
        for k, what, tr in bad:
            ctx.violation(k + ':bulk-pending', "%s; deliveries %s" % (what, list(tr)), {'bulk': [nb, inv]})
    ctx.cov['bulk_pending_sequences'] = len(bjobs)
    # ---- the schedule dimension: the networking thread handles a delivery while the miner thread publishes a found block
    thr = thrscen.run(ctx, 'MN', 1 if ctx.quick else 2, names=['found-vs-valid-sibling-delivery', 'found-vs-invalid-delivery', 'found-vs-transaction-delivery'], only=['C09:'])
    thr_c = thrscen.run(ctx, 'MNc', 2 if ctx.quick else 3, names=['found-vs-valid-sibling-delivery', 'found-vs-invalid-delivery', 'found-vs-transaction-delivery'], only=['C09:'])   # coarser points, one preemption more
    ctx.cov['thread_schedules_coarse'] = thr_c
    ctx.cov['thread_schedules'] = thr
    ctx.cov.update({
        'states': stats['states'], 'transitions': stats['transitions'], 'traces_validated_against_impl': stats['transitions'],
        'samples': [sample or []] + [list(f) for f in frontier[:2]],
        'outcome_histogram': {k: {'entered': v[0], 'not_entered': v[1]} for k, v in sorted(hist.items())},
        'event_kinds': len(hist), 'deliveries_entered': stats['entered'], 'deliveries_not_entered': stats['rejected'],
        'closing_blocks_stored': stats['closing_stored'], 'closing_blocks_not_accepted': stats['closing_not_accepted'],
        'depth': depth, 'exhaustive': True,
        'rule': "BFS over delivery sequences to depth %d; state = history replayed on a fresh node + store copy; de-duplicated on "
                "(stored ids, head, pool, store rows, write buffer, last validated head, which peers are still connected); every "
                "delivery compared with the reference validator and followed (on a copy) by a closing valid block" % depth,
    })


def replay(data, ctx):
    if 'thread_scenario' in data:
        return thrscen.replay(data)
    if 'bulk' in data:
        return [(k + ':bulk-pending', w_) for k, w_, tr in bulk_then_rejected(tuple(data['bulk']))]
    setup_worker()
    trace = tuple(data['trace'])
    closing = trace and trace[-1] == 'closing-valid'
    t = trace[:-1] if closing else trace
    w, bad, outcome = execute(t)
    out = []
    if bad is None:
        w.close()
        return out
    if closing:
        cbad = []
        closing_check(w, cbad, t)
        out = [(k, what) for k, what, tr in cbad]
    else:
        out = [(k, what) for k, what, tr in bad if tuple(tr) == t]
    w.close()
    return out
