"""C11 - stream framing is independent of transport fragmentation.  Every 2-way and 3-way cut (plus bytewise,
whole, and cuts with empty reads) of framed / corrupted streams through the real MessageReceiver, compared with a
15-line reference framer: same messages exactly once and in order, refusal raised by exactly the read that
delivers the offending byte."""
import io
import itertools
import logging
import struct
from ipaddress import IPv6Address

from .. import world
from ..world import K

LEVEL = 'model_checking'
MAGIC = b'MAJI'
MAXLEN = 32 * 1024 * 1024


def menu():
    from skepticoin.networking import messages as M
    H = [bytes([i]) * 32 for i in (1, 2, 3)]
    tx = world.mk_tx([(world.ref(H[0], 0), K[0])], [(5, K[1])])
    return {
        'getpeers': M.GetPeersMessage(),
        'getdata': M.GetDataMessage(M.DATA_BLOCK, H[0]),
        'inv0': M.InventoryMessage([]),
        'inv1': M.InventoryMessage([M.InventoryItem(M.DATA_BLOCK, H[1])]),
        'peers1': M.PeersMessage([M.Peer(7, IPv6Address('::ffff:1.2.3.4'), 2412)]),
        'getblocks1': M.GetBlocksMessage([H[2]]),
        'datatx': M.DataMessage(M.DATA_TRANSACTION, tx),
        'hello': M.HelloMessage([M.SupportedVersion(0)], IPv6Address('::ffff:9.9.9.9'), 1, IPv6Address(0), 2412, 77, b'sashimi vf'),
    }


def payload(name, mid=1):
    from skepticoin.networking import messages as M
    return M.MessageHeader(1_700_000_000, mid, 0, 99).serialize() + menu()[name].serialize()


def frame(pl, length=None, magic=None):
    magic = MAGIC if magic is None else magic
    return magic + struct.pack(">I", len(pl) if length is None else length) + pl


def decode_payload(pl):
    """payload validity oracle (the real decoders; fragmentation independence is what is under test, not them):
    canonical (header bytes, message bytes) or None"""
    from skepticoin.networking import messages as M
    f = io.BytesIO(pl)
    try:
        h = M.MessageHeader.stream_deserialize(f)
        m = M.Message.stream_deserialize(f)
        return (h.serialize(), m.serialize())
    except Exception:
        return None


SMALL_MAX = 400     # seam value of MAX_MESSAGE_SIZE for the streams that contain frames of exactly / almost the maximum size


def reference_framer(stream, MAXLEN=None):
    MAXLEN = MAXLEN if MAXLEN is not None else globals()['MAXLEN']
    """-> (list of dispatched (hdr, msg), refusal index or None).  refusal index = index of the byte whose arrival
    completes the offending field / payload"""
    out = []
    pos = 0
    n = len(stream)
    while True:
        if n - pos < 4:
            return out, None
        if stream[pos:pos + 4] != MAGIC:
            return out, pos + 3
        if n - pos < 8:
            return out, None
        (ln,) = struct.unpack(">I", stream[pos + 4:pos + 8])
        if ln > MAXLEN:
            return out, pos + 7
        if n - pos - 8 < ln:
            return out, None
        d = decode_payload(stream[pos + 8:pos + 8 + ln])
        if d is None:
            return out, pos + 8 + ln - 1 if ln > 0 else pos + 7
        out.append(d)
        pos += 8 + ln


class Recorder:
    def __init__(self):
        self.got = []

    def handle_message_received(self, header, message):
        self.got.append((header.serialize(), message.serialize()))


class FakeLocalPeer:
    logger = logging.getLogger('vf.c11')


def make_receiver(mode):
    from skepticoin.networking import remote_peer as rp
    if mode == 'receiver':
        rec = Recorder()
        r = rp.MessageReceiver(rec)
        return rec, r.receive
    peer = rp.ConnectedRemotePeer(FakeLocalPeer(), '1.2.3.4', 5, rp.INCOMING, None, None, 0)
    rec = Recorder()
    peer.handle_message_received = rec.handle_message_received
    return rec, peer.handle_receive_data


def run_cut(stream, cuts, mode):
    """feed stream cut at the given offsets (may repeat => empty reads); returns (dispatched, index of last byte
    delivered by the raising read or None, exception text)"""
    rec, feed = make_receiver(mode)
    prev = 0
    for c in list(cuts) + [len(stream)]:
        chunk = stream[prev:c]
        prev = c
        try:
            feed(chunk)
        except Exception as e:
            return rec.got, c - 1, repr(e)[:60]
    return rec.got, None, None


def all_cuts(n, three=True):
    yield ()
    yield tuple(range(1, n))                 # byte at a time
    for a in range(1, n):
        yield (a,)
        yield (a, a)                         # an empty read in between
    yield (0,)
    yield (n,)
    if three:
        for a in range(1, n):
            for b in range(a + 1, n):
                yield (a, b)


def streams(ctx):
    """(name, bytes)"""
    short = ['getpeers', 'inv0', 'getdata', 'inv1', 'peers1']
    names = list(menu().keys())
    out = []
    for a in names:
        out.append((a, frame(payload(a))))
    for a, b in itertools.product(short, short):
        out.append((a + '+' + b, frame(payload(a, 1)) + frame(payload(b, 2))))
    tri = short[:3] if ctx.quick else short
    for a, b, c in itertools.product(tri, tri, tri):
        out.append(('+'.join((a, b, c)), frame(payload(a, 1)) + frame(payload(b, 2)) + frame(payload(c, 3))))
    if not ctx.quick:
        for a, b in itertools.product(names, names):
            if a not in short or b not in short:
                out.append((a + '+' + b, frame(payload(a, 1)) + frame(payload(b, 2))))
    # corrupted streams: a valid short frame, then the corrupted one (k = 1), or the corrupted one first (k = 0), then
    # one more valid frame so that resynchronisation / refusal is observable
    good = frame(payload('getpeers', 1))
    tail = frame(payload('inv0', 3))
    vic = payload('getdata', 2)
    variants = []
    for i in range(4):
        for v in (0x00, MAGIC[i] ^ 1, 0xff):
            m = bytearray(MAGIC)
            m[i] = v
            variants.append(('magic%d=%02x' % (i, v), frame(vic, magic=bytes(m))))
    variants += [
        ('len=max+1', frame(vic, length=MAXLEN + 1)), ('len=2^32-1', frame(vic, length=2**32 - 1)),
        ('len=max-header-only', MAGIC + struct.pack(">I", MAXLEN)), ('len=0', frame(b'')),
        # over-limit lengths made of the magic's own bytes (the magic repeated; each magic byte as the most significant byte)
        ('len=magic', frame(vic, length=int.from_bytes(MAGIC, 'big'))),
    ] + [('len=%02x0000%02x' % (mb, len(vic)), frame(vic, length=(mb << 24) | len(vic))) for mb in sorted(set(MAGIC))] + [
        ('len=magic-then-frame', MAGIC + frame(vic)),
        ('len=0-then-payload', frame(vic, length=0)),
        ('len-short-5', frame(vic, length=len(vic) - 5)), ('len-short-1', frame(vic, length=len(vic) - 1)),
        ('len-long-3', frame(vic, length=len(vic) + 3)), ('len-long-8', frame(vic, length=len(vic) + 8)),
        ('len=53-header-only', frame(vic, length=53)), ('len=1', frame(vic, length=1)),
        ('unknown-msgtype', frame(vic[:53] + b'\xff\xff' + vic[55:])),
        ('bad-body-version', frame(vic[:55] + b'\x01' + vic[56:])),
        ('garbage-payload', frame(b'\x00' * 20)),
        ('magic-lowercase', b'maji' + struct.pack(">I", len(vic)) + vic),
        ('truncated-frame', frame(vic)[:-7]),
    ]
    for nm, bad in variants:
        out.append(('good+' + nm + '+tail', good + bad + (tail if 'header-only' not in nm and 'truncated' not in nm else b'')))
        out.append((nm + '+tail', bad + (tail if 'header-only' not in nm and 'truncated' not in nm else b'')))
    # frames of exactly / almost the maximum size (with the size limit rebound to SMALL_MAX), followed by more frames
    from skepticoin.networking import messages as M

    def hello_of(total):
        ua = total - 355
        m = M.HelloMessage([M.SupportedVersion(0)], IPv6Address('::ffff:9.9.9.9'), 1, IPv6Address(0), 2412, 77, b'u' * ua)
        pl = M.MessageHeader(1_700_000_000, 9, 0, 99).serialize() + m.serialize()
        assert len(pl) == total, (len(pl), total)
        return pl
    small_frames = {'getpeers': frame(payload('getpeers', 2)), 'inv0': frame(payload('inv0', 3))}
    for L in (SMALL_MAX, SMALL_MAX - 1, SMALL_MAX - 8, SMALL_MAX + 1):
        big = frame(hello_of(L))
        out.append(('max:hello%d+getpeers' % L, big + small_frames['getpeers']))
        out.append(('max:getpeers+hello%d+inv0' % L, small_frames['getpeers'] + big + small_frames['inv0']))
        if not ctx.quick:
            out.append(('max:hello%d+hello%d' % (L, L), big + big))
    # large frames (bodies beyond 4 KiB / 64 KiB / 1 MiB: several transport reads each, any buffering strategy that depends
    # on the size is exercised), alone, first and last in the stream; explored under the cut set of large_cuts()
    def inv_of(nitems, mid):
        m = M.InventoryMessage([M.InventoryItem(M.DATA_BLOCK, struct.pack(">I", i) * 8) for i in range(nitems)])
        return M.MessageHeader(1_700_000_000, mid, 0, 99).serialize() + m.serialize()
    for nitems in (150, 2100) + (() if ctx.quick else (33000,)):
        big = frame(inv_of(nitems, 5))
        out.append(('large:inv%d' % nitems, big))
        out.append(('large:getpeers+inv%d' % nitems, small_frames['getpeers'] + big))
        out.append(('large:inv%d+getpeers' % nitems, big + small_frames['getpeers']))
    # many minimum-size frames arriving together (one read completes 16, 40, 300 frames)
    for cnt in (16, 17, 40, 300):
        out.append(('large:many%d-getpeers' % cnt, b''.join(frame(payload('getpeers', 100 + i)) for i in range(cnt))))
    # two multi-read frames back to back: the first one ends INSIDE a full-size read, under every alignment of the
    # node's 1024-byte reads (large_cuts adds all 1024 alignments for names starting with 'large:align')
    out.append(('large:align:inv150+inv150', frame(inv_of(150, 5)) + frame(inv_of(150, 6))))
    out.append(('large:align:inv40+inv60+getpeers+inv40', frame(inv_of(40, 5)) + frame(inv_of(60, 6)) + small_frames['getpeers']
                + frame(inv_of(40, 7))))
    return out


def large_cuts(stream, all_alignments=False):
    """cut set for streams too long for all cuts: whole; the node's own read pattern (1024-byte reads) and 4096 / 65536-byte
    reads; every single cut at a position next to a frame boundary, the 12 bytes after it, a power of two (+-1, also
    counted from the start of each frame body) or the end; and each of those combined with a cut one byte before the end"""
    n = len(stream)
    starts = []
    pos = 0
    while pos + 8 <= n and stream[pos:pos + 4] == MAGIC:
        starts.append(pos)
        pos += 8 + struct.unpack(">I", stream[pos + 4:pos + 8])[0]
    marks = set()
    if len(starts) > 8:
        starts = starts[:3] + starts[-2:]         # (a burst of many frames: boundaries of the first three and last two)
    for st in starts + [n]:
        for d in range(-2, 13):
            marks.add(st + d)
        for k in range(2, 22):
            for d in (-1, 0, 1):
                marks.add(st + 8 + (1 << k) + d)
                marks.add((1 << k) + d)
    marks = sorted(m for m in marks if 0 < m < n)
    yield ()
    for step in (1024, 4096, 65536):
        yield tuple(range(step, n, step))
        yield tuple(range(step - 7, n, step))
    for a in marks:
        yield (a,)
    for a in marks:
        if a < n - 1:
            yield (a, n - 1)
    if all_alignments:
        for first in range(1, 1024):
            yield tuple(range(first, n, 1024))


def _worker(arg):
    name, stream, three = arg
    import skepticoin.networking.remote_peer as rp
    small = name.startswith('max:')
    rp.MAX_MESSAGE_SIZE = SMALL_MAX if small else MAXLEN
    exp_msgs, exp_ref = reference_framer(stream, SMALL_MAX if small else MAXLEN)
    bad = []
    n = 0
    outcomes = set()
    for mode in ('receiver', 'peer'):
        for cuts in (large_cuts(stream, name.startswith('large:align')) if name.startswith('large:')
                     else all_cuts(len(stream), three and mode == 'receiver')):
            n += 1
            got, at, exc = run_cut(stream, cuts, mode)
            # the raising read must be the one that delivers the refusal byte
            if exp_ref is None:
                ok = at is None and got == exp_msgs
            else:
                bounds = [0] + list(cuts) + [len(stream)]
                # first chunk whose end exceeds the refusal index
                exp_at = next(b for b in bounds[1:] if b > exp_ref) - 1
                ok = at == exp_at and got == exp_msgs
            outcomes.add((len(got), at is not None))
            if not ok and len(bad) < 4:
                what = ("stream %s (%d bytes) cut at %s via %s: dispatched %d message(s)%s, reference: %d message(s)%s" % (
                    name, len(stream), list(cuts)[:6], mode, len(got),
                    (", refused by the read ending at byte %d (%s)" % (at, exc)) if at is not None else ", no refusal",
                    len(exp_msgs), (", refusal when byte %d arrives" % exp_ref) if exp_ref is not None else ", no refusal"))
                kind = 'messages' if got != exp_msgs else 'refusal-point'
                bad.append(('framing-' + kind, what, name, list(cuts)))
    return n, bad, len(exp_msgs), exp_ref is not None, len(outcomes)


def _fresh_connection(net, simnet, CoinState, through=False):
    """a real node with one accepted incoming connection whose messages are recorded (through: a greeting is also passed on
    to the real handler)"""
    node = simnet.SimNode(net, 'N', '10.0.0.1', CoinState.zero())
    s = simnet.FakeSocket(net, None)
    s.local = ('7.7.7.7', 50001)
    s.remote = node.lsock.local
    node.lsock.backlog.append(s)
    node.accept()
    peer = node.peer_for(s.peer)
    rec = Recorder()
    if through:
        from skepticoin.networking.messages import HelloMessage
        orig = peer.handle_message_received

        def both(header, message):
            rec.handle_message_received(header, message)
            if isinstance(message, HelloMessage):
                orig(header, message)
        peer.handle_message_received = both
    else:
        peer.handle_message_received = rec.handle_message_received
    return node, s, peer, rec


def _node_worker(items):
    """the same streams through a real node's socket-event handling (LocalPeer.handle_remote_peer_selector_event over the
    fake socket / selector): the sender closes the connection right after its last byte - before the node has read anything,
    after it has read part, or after it has read everything.  Whatever was sent before the close is extracted as if nothing
    had been closed"""
    from .. import seams, simnet
    from skepticoin.coinstate import CoinState
    net = simnet.Net(seams.Clock(1_700_000_000))
    net.install()
    import skepticoin.networking.remote_peer as rp
    rp.MAX_MESSAGE_SIZE = MAXLEN
    bad = []
    n = 0
    for name, stream in items:
        exp_msgs, exp_ref = reference_framer(stream, MAXLEN)
        if exp_ref is not None:
            continue
        cutpoints = sorted({0, len(stream) // 3, len(stream) - 1, len(stream)} | {c for c in (1024, 2048) if c < len(stream)})
        for read_before_close in cutpoints:
            for lst in (net.escaped, net.dialling, net.connections, net.nodes):
                lst.clear()
            net.listeners.clear()
            net._eph = 40000
            node, s, peer, rec = _fresh_connection(net, simnet, CoinState)
            # the node reads `read_before_close` bytes (1024 per event) while only those have arrived; then the rest arrives
            # together with the end of the stream
            refused = False
            try:
                s.send(stream[:read_before_close])
                node.deliver(s.peer)
                s.send(stream[read_before_close:])
                s.close()
            except BrokenPipeError:
                refused = True          # the node has hung up on a well-formed stream
            for _ in range(len(stream) // 1024 + 8):
                if s.peer not in node.lp.selector.get_map():
                    break
                node.read_event(s.peer)
            n += 1
            if (refused or rec.got != exp_msgs) and len(bad) < 4:
                bad.append(('framing-messages-before-close', "stream %s (%d bytes): the sender closes right after its last byte, the node "
                            "having read %d bytes before: %d message(s) extracted, %d were sent%s" % (
                                name, len(stream), read_before_close, len(rec.got), len(exp_msgs),
                                '; the node hung up before the end' if refused else ''), name, [read_before_close]))
        # ---- the same stream behind a genuine greeting (handled by the real handler), the connection staying open: the first
        # read ends inside / at / just behind the greeting frame, everything else is there for the following 1024-byte reads
        hello = frame(payload('hello', 1))
        full = hello + stream
        h_exp, _ = reference_framer(hello, MAXLEN)
        for first in (2, 100, len(hello) - 1, len(hello), len(hello) + 1):
            for lst in (net.escaped, net.dialling, net.connections, net.nodes):
                lst.clear()
            net.listeners.clear()
            net._eph = 40000
            node, s, peer, rec = _fresh_connection(net, simnet, CoinState, through=True)
            refused = False
            try:
                s.send(full[:first])
                node.deliver(s.peer)
                s.send(full[first:])
                node.deliver(s.peer)
            except BrokenPipeError:
                refused = True
            n += 1
            alive = s.peer in node.lp.selector.get_map()
            if (refused or not alive or rec.got != h_exp + exp_msgs) and len(bad) < 4:
                bad.append(('framing-messages-after-greeting', "greeting + stream %s (%d bytes), first read %d bytes, then 1024-byte reads: "
                            "%d message(s) extracted, %d were sent%s" % (
                                name, len(full), first, len(rec.got), len(h_exp) + len(exp_msgs),
                                '' if alive and not refused else '; the node dropped the connection'), name, ['greeting', first]))
    return n, bad


def run(ctx):
    from .. import seams
    import skepticoin.networking.remote_peer as rp
    # the property does not fix the magic or the size limit: take them from the tree under test
    global MAGIC, MAXLEN
    import skepticoin.networking.params as netparams
    MAGIC = rp.MAGIC
    MAXLEN = netparams.MAX_MESSAGE_SIZE
    sts = streams(ctx)
    maxlen3 = 330 if ctx.quick else 520
    jobs = [(nm, s, (len(s) <= maxlen3 or nm.startswith('max:hello')) and not nm.startswith('large:')) for nm, s in sts]
    if ctx.seed:
        import random
        random.Random(ctx.seed).shuffle(jobs)
    jobs.sort(key=lambda j: -len(j[1]) if j[2] else 0)
    res = ctx.pmap(_worker, jobs)
    node_items = [(nm, s_) for nm, s_ in sts if not nm.startswith('max:') and len(s_) < 80000]
    nres = ctx.pmap(_node_worker, [node_items[i::16] for i in range(16)])
    ctx.cov['streams_through_a_real_nodes_socket_events_with_close'] = sum(r[0] for r in nres)
    for cnt, nbad in nres:
        for key, what, name, cuts in nbad:
            ctx.violation(key, what, {'name': name, 'cuts': cuts, 'node': True})
    n = sum(r[0] for r in res)
    for r in res:
        for key, what, name, cuts in r[1]:
            ctx.violation(key, what, {'name': name, 'cuts': cuts})
    ctx.cov.update({
        'states': len(sts), 'transitions': n, 'traces_validated_against_impl': n,
        'samples': [{'stream': jobs[0][0], 'bytes': len(jobs[0][1]), 'cuts': [10, 70]},
                    {'stream': 'good+len=max+1+tail', 'expected': 'refusal when the 8th byte of the second frame arrives'}],
        'exhaustive': True, 'streams': len(sts), 'streams_with_all_3way_cuts': sum(1 for j in jobs if j[2]),
        'streams_with_refusal': sum(1 for r in res if r[3]), 'messages_expected_total': sum(r[2] for r in res),
        'distinct_outcomes': sum(r[4] for r in res),
        'rule': "states = streams; transitions = (stream, cut) executions, each compared with the reference framer: whole, "
                "bytewise, every 2-way cut (also with an empty read), every 3-way cut for streams <= %d bytes; through "
                "MessageReceiver.receive and through ConnectedRemotePeer.handle_receive_data; frames of 5 KB / 71 KB (thorough: "
                "1.1 MB) alone, first and last in a stream under 1024/4096/65536-byte reads and every single cut next to a frame "
                "boundary, a power of two or the end; two multi-read frames back to back under every alignment of 1024-byte reads; 16 / 17 / 40 / 300 minimum-size frames in one burst" % maxlen3,
    })


def replay(data, ctx):
    import skepticoin.networking.remote_peer as rp
    if data['name'] is None:
        return [('constants', 'changed')]
    sts = dict(streams(type(ctx)(ctx.pid, 'thorough', 0)))
    s = sts[data['name']]
    if data.get('node'):
        return [(k, w) for k, w, _, _ in _node_worker([(data['name'], s)])[1]]
    small = data['name'].startswith('max:')
    rp.MAX_MESSAGE_SIZE = SMALL_MAX if small else MAXLEN
    exp_msgs, exp_ref = reference_framer(s, SMALL_MAX if small else MAXLEN)
    out = []
    for mode in ('receiver', 'peer'):
        got, at, exc = run_cut(s, data['cuts'], mode)
        if exp_ref is None:
            ok = at is None and got == exp_msgs
        else:
            bounds = [0] + list(data['cuts']) + [len(s)]
            exp_at = next(b for b in bounds[1:] if b > exp_ref) - 1
            ok = at == exp_at and got == exp_msgs
        if not ok:
            out.append(('framing-' + ('messages' if got != exp_msgs else 'refusal-point'), 'reproduced via ' + mode))
    return out
