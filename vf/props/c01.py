"""C01 - no unauthorised or double spending in any fully validated block; rejected blocks leave the state as it was."""
from .. import blockcheck, cands, ledger, refmodel, world

LEVEL = 'model_checking'
PREFIX = (('f',), ('f', 's'))
LABELS = ('e', 'a', 'b', 'c')
PROP = 'C01'


def cfg():
    return blockcheck.Config('C01', None, [cands.c01_candidates], refmodel.C01_TAGS, check_unchanged=True)


def now_for(kind):
    return (world.T0 if kind == 'easy' else 1615757105) + 10**6


def _worker(arg):
    kind, hists, both = arg
    ledger.setup()
    uni = ledger.tx_universe(kind)
    c = cfg()
    c.both_forms = both
    return blockcheck.run_histories(c, uni, hists, now_for(kind)) + (kind,)


def plan(ctx):
    """[(universe kind, depth)]"""
    return [('easy', 3), ('genesis', 1)] if ctx.quick else [('easy', 4), ('genesis', 2)]


def run(ctx, worker=_worker, prop=PROP, labels=LABELS, plan_fn=None, universe_fn=None):
    ledger.setup()
    jobs = []
    per_depth = {}
    samples = []
    for kind, depth in (plan_fn or plan)(ctx):
        uni = universe_fn(kind) if universe_fn else ledger.tx_universe(kind)
        levels = ledger.enumerate_histories(uni, PREFIX, labels, depth)
        hists = [h for lv in levels for h in lv]
        per_depth[kind] = [len(l) for l in levels]
        samples.append(ledger.hist_str(levels[-1][len(levels[-1]) // 3]))
        if ctx.seed:
            import random
            random.Random(ctx.seed).shuffle(hists)
        nchunk = max(1, min(len(hists), ctx.ncpu * 6))
        jobs += [(kind, hists[i::nchunk], not ctx.quick) for i in range(nchunk)]
    ctx.log("histories", per_depth)
    res = ctx.pmap(worker, jobs)
    tot, hs = blockcheck.merge(ctx, res, prop)
    finish(ctx, tot, hs, per_depth, samples)
    if prop == 'C01':
        node_level(ctx)


def _names_worker(_):
    from .. import thrscen
    return thrscen.node_level_names()


def _node_worker(names):
    from .. import thrscen
    return thrscen.node_level_rejections(names)


def node_level(ctx):
    """"the chain state the node held before the attempt is left exactly as it was", at the level of the node: the same
    rule-breaking blocks arrive from a peer"""
    names = ctx.pmap(_names_worker, [0, 1])[0]
    k = max(1, min(len(names), ctx.ncpu))
    n = 0
    for cnt, bad in ctx.pmap(_node_worker, [names[i::k] for i in range(k)]):
        n += cnt
        for key, what, nm, pre in bad:
            ctx.violation(key + ':' + pre, what, {'node_level': nm, 'pre': pre})
    ctx.cov['node_level_rejected_deliveries'] = n
    ctx.cov['rule'] += ("; plus every rule-breaking candidate delivered by a peer to a real node (start-up state / after its own "
                        "miner found a block): chain state, pool and store unchanged by the rejection")


def finish(ctx, tot, hs, per_depth, samples, extra_rule=''):
    never_rejected = sorted(k for k, v in hs.items() if v[1] == 0)
    never_accepted = sorted(k for k, v in hs.items() if v[0] == 0)
    ctx.cov.update({
        'states': tot.get('states', 0), 'transitions': tot.get('transitions', 0),
        'traces_validated_against_impl': tot.get('transitions', 0),
        'samples': samples + [{'candidate': k, 'accepted': v[0], 'rejected': v[1]} for k, v in sorted(hs.items())[:6]],
        'histories_per_depth': per_depth, 'outcome_histogram': {k: {'accepted': v[0], 'rejected': v[1]} for k, v in sorted(hs.items())},
        'candidate_kinds': len(hs), 'kinds_always_accepted': never_rejected, 'kinds_never_accepted': len(never_accepted),
        'controls_accepted': tot.get('controls_accepted', 0), 'controls_rejected': tot.get('controls_rejected', 0),
        'unchanged_state_checks': tot.get('unchanged_checks', 0), 'exhaustive': True,
        'own_assembled_blocks': tot.get('own_assembled', 0),
        'vacuous': tot.get('controls_accepted', 0) == 0,
        'valid_histories_refused_by_validation': tot.get('valid_history_refused', 0),
        'rule': "BFS over block-tree histories (de-duplicated on (stored set, head)); in every state every stored block is "
                "offered every candidate of the alphabet through CoinState.add_block; each offer is one transition compared "
                "with the reference validator" + extra_rule,
    })
    if tot.get('controls_accepted', 0) == 0:
        ctx.notes.append("vacuous: no control block was accepted")


def replay(data, ctx, cfgf=cfg):
    ledger.setup()
    if 'node_level' in data:
        from .. import thrscen
        n, bad = thrscen.node_level_rejections([data['node_level']])
        return [(k + ':' + pre, w) for k, w, nm, pre in bad]
    kind = data.get('uni') or 'easy'
    return replay_one(cfgf(), ledger.tx_universe(kind), data, now_for(kind))


def replay_one(c, uni, data, now):
    c.both_forms = True
    hist = tuple(tuple(p) for p in data['hist'])
    st, out, hs = blockcheck.run_histories(c, uni, [hist], now)
    res = []
    for key, what, h, ppath, cname in out:
        res.append((key, what))
    return res
