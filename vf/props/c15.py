"""C15 - wallet keys: faithful file, no key handed out twice, balance, atomic save.
(1) BFS over all sequences of hand-out / restore / save / load / in-memory dump+load on the real Wallet with a
reference wallet in lock-step; (2) balance in every reachable wallet state on several ledger states; (3) every
crash snapshot of every save executed (file layer snapshots at each raw write / close / rename)."""
import io
import json
import os

from .. import crashfs, ledger, seams, world
from ..world import K

LEVEL = 'model_checking'
KEYS = [world.Key(0x5001 + i) for i in range(3)]


def new_wallet(keys=KEYS):
    from skepticoin.wallet import Wallet
    return Wallet({k.pub: k.priv for k in keys}, [k.pub for k in keys], {})


def wstate(w):
    return (tuple(w.unused_public_keys), tuple(sorted(w.public_key_annotations.items())), tuple(sorted(w.keypairs.items())))


def file_text():
    try:
        with open('wallet.json') as f:
            return f.read()
    except FileNotFoundError:
        return None


class Ref:
    """reference wallet: unused list, annotations; file = saved copy"""

    def __init__(self, unused, ann, saved):
        self.unused = list(unused)
        self.ann = dict(ann)
        self.saved = saved      # (unused tuple, ann tuple) or None
        self.saved_impl = None
        self.last_req = {}      # key -> annotation REQUESTED at its latest hand-out (what the caller passes when undoing it)

    def copy(self):
        r = Ref(self.unused, self.ann, self.saved)
        r.saved_impl = self.saved_impl
        r.last_req = dict(self.last_req)
        return r

    def key(self):
        return (tuple(self.unused), tuple(sorted(self.ann.items())), self.saved)


OPS = [('handout', 'a'), ('handout', ''), ('handout', 'caf\u00e9 "q" \\ \n\u2713'), ('restore',), ('restore-oldest',), ('save',), ('load',),
       ('roundtrip',), ('generate',)]
GEN_KEYS = {}


def apply_op(w, ref, op, last, rec, check_crash, bad, trace):
    """executes op on the real wallet and the reference; returns (wallet, ref, last handed-out key)"""
    from skepticoin import wallet as W
    kind = op[0]
    if kind == 'handout':
        try:
            k = w.get_annotated_public_key(op[1])
        except Exception as e:
            bad.append(('handout-raises', "hand-out raises %r" % (e,), trace))
            return w, ref, last
        if ref.unused:
            if k not in ref.unused:
                why = "was handed out before and not restored" if k in ref.ann else "is not an unused key of the wallet"
                bad.append(('key-handed-out-twice', "hand-out returned a key that %s while %d unused keys remain" % (
                    why, len(ref.unused)), trace))
            else:
                ref.unused.remove(k)
                ref.ann[k] = op[1]
        else:
            if k not in w.keypairs:
                bad.append(('handout-unknown-key', "hand-out without unused keys returned a key not in the wallet", trace))
        ref.last_req[k] = op[1]
        return w, ref, k
    if kind == 'generate':
        # one more key pair is generated on this wallet object (at most one per sequence); the new key is a function of how
        # many the wallet has, so that replays are deterministic
        import ecdsa
        n = len(w.keypairs)
        if n >= len(KEYS) + 1:
            return None
        if len(trace) > 1 and trace[-2][0] != 'load':
            return None          # (enabled on a fresh wallet object and right after a load: the two kinds of object there are)
        if n not in GEN_KEYS:
            GEN_KEYS[n] = world.Key(0x9000 + n)
        nk = GEN_KEYS[n]
        orig = ecdsa.SigningKey.__dict__['generate']
        ecdsa.SigningKey.generate = classmethod(lambda cls, *a, **k: nk.sk)
        try:
            w.generate_key()
        except Exception as e:
            bad.append(('generate-raises', "generate_key raises %r" % (e,), trace))
            return w, ref, last
        finally:
            ecdsa.SigningKey.generate = orig
        if w.keypairs.get(nk.pub) != nk.priv or (list(w.unused_public_keys) or [None])[-1] != nk.pub:
            bad.append(('generate-lost', "a generated key pair is not in the wallet / not its newest unused key", trace))
        ref.unused.append(nk.pub)
        return w, ref, last
    if kind == 'restore':
        if last is None or last not in ref.ann:
            return None
        # the caller undoes a hand-out with the annotation it asked for (as the miner does on shutdown) - for a re-used key
        # that is not the annotation the key carries
        w.restore_annotated_public_key(last, ref.last_req.get(last, ref.ann[last]))
        del ref.ann[last]
        ref.unused.append(last)
        return w, ref, None
    if kind == 'restore-oldest':
        # restore a key that is NOT the most recently handed-out one (first annotated key in key-pair order)
        cands_ = [k.pub for k in KEYS if k.pub in ref.ann and k.pub != last]
        if not cands_ or len(ref.ann) < 2:
            return None
        k0 = cands_[0]
        try:
            w.restore_annotated_public_key(k0, ref.ann[k0])
        except Exception as e:
            bad.append(('restore-raises', "restoring a handed-out key raises %r" % (e,), trace))
            return w, ref, last
        del ref.ann[k0]
        ref.unused.append(k0)
        return w, ref, last
    if kind == 'save':
        before_text = file_text()
        rec.reset()
        try:
            W.save_wallet(w)
        except Exception as e:
            bad.append(('save-raises', "save raises %r" % (e,), trace))
            return w, ref, last
        new_saved = (tuple(ref.unused), tuple(sorted(ref.ann.items())))
        # what is on disk after a save must be the wallet that was saved
        ft = file_text()
        if ft is None or parse_saved(ft) != wstate(w):
            bad.append(('saved-file-differs', "after save the wallet file does not hold the wallet that was saved (%s)" % (
                'no file' if ft is None else 'stale or different content'), trace))
        if check_crash:
            crash_check(rec, ref.saved_impl, wstate(w), bad, trace)
        ref.saved = new_saved
        ref.saved_impl = wstate(w)
        return w, ref, last
    if kind == 'load':
        if ref.saved is None:
            return None
        try:
            with open('wallet.json') as f:
                w2 = W.Wallet.load(f)
        except Exception as e:
            bad.append(('load-raises', "load of the saved file raises %r" % (e,), trace))
            return w, ref, last
        if wstate(w2) != ref.saved_impl:
            bad.append(('load-differs', "loading the saved file does not reproduce the wallet that was saved (key pairs / unused "
                        "key list / annotations)", trace))
        ref.unused = list(ref.saved[0])
        ref.ann = dict(ref.saved[1])
        return w2, ref, None
    if kind == 'roundtrip':
        f = io.StringIO()
        w.dump(f)
        f.seek(0)
        w2 = W.Wallet.load(f)
        if wstate(w2) != wstate(w):
            bad.append(('roundtrip', "dump then load does not reproduce the wallet (keys / unused list / annotations)", trace))
        return w2, ref, last
    raise KeyError(op)


def wallet_matches(w, ref):
    return (list(w.unused_public_keys) == ref.unused and dict(w.public_key_annotations) == ref.ann)


def parse_saved(text):
    """wallet content of a wallet file's text using the real loader, or None if unreadable"""
    from skepticoin.wallet import Wallet
    try:
        return wstate(Wallet.load(io.StringIO(text)))
    except Exception:
        return None


def crash_check(rec, old_state, new_state, bad, trace):
    """old_state / new_state: wallet content (wstate) saved before / being saved now; old_state None = no file before"""
    for i, (label, view) in enumerate(rec.snaps):
        data = view.get('wallet.json')
        where = "crash right after %s (snapshot %d of %d)" % (label, i + 1, len(rec.snaps))
        if data is None:
            if old_state is not None:
                bad.append(('crash-file-missing', "%s: wallet.json does not exist although a wallet had been saved" % where, trace))
            continue
        p = parse_saved(data.decode('utf-8', 'replace'))
        if p is None:
            bad.append(('crash-file-corrupt', "%s: wallet.json (%d bytes) cannot be loaded" % (where, len(data)), trace))
        elif p not in (old_state, new_state):
            bad.append(('crash-file-mixed', "%s: wallet.json is neither the complete previous nor the complete new wallet" % where, trace))
        else:
            # life goes on after the crash: the process restarts on exactly these files (a left-over side file included),
            # loads the wallet and saves it again - the file must then hold that wallet
            post_crash_save(rec, view, p, where, bad, trace)


def post_crash_save(rec, view, state, where, bad, trace):
    from skepticoin import wallet as W
    keep = {}
    for fn in rec.watch:
        try:
            with open(fn, 'rb') as f:
                keep[fn] = f.read()
        except FileNotFoundError:
            keep[fn] = None
    was = rec.active
    rec.active = False
    try:
        for fn, data in view.items():
            if data is None:
                if os.path.exists(fn):
                    os.remove(fn)
            else:
                with open(fn, 'wb') as f:
                    f.write(data)
        try:
            with open('wallet.json') as f:
                w = W.Wallet.load(f)
            W.save_wallet(w)
            txt = file_text()
            p2 = parse_saved(txt) if txt is not None else None
        except Exception as e:
            p2 = 'raised %r' % (e,)
        if p2 != state:
            bad.append(('save-after-crash-corrupts-file', "%s, then restart, load and save again: wallet.json %s" % (
                where, "cannot be loaded" if p2 is None else ("raises: " + p2 if isinstance(p2, str) else "holds another wallet")), trace))
    finally:
        for fn, data in keep.items():
            if data is None:
                if os.path.exists(fn):
                    os.remove(fn)
            else:
                with open(fn, 'wb') as f:
                    f.write(data)
        rec.active = was


def rebuild(trace, rec, check_crash):
    """replay a trace on fresh objects; returns (wallet, ref, last, violations) or None if not executable"""
    for fn in ('wallet.json', 'wallet.json.new'):
        if os.path.exists(fn):
            os.remove(fn)
    w = new_wallet()
    ref = Ref([k.pub for k in KEYS], {}, None)
    last = None
    bad = []
    for i, op in enumerate(trace):
        r = apply_op(w, ref, op, last, rec, check_crash and i == len(trace) - 1, bad, trace[:i + 1])
        if r is None:
            return None
        w, ref, last = r
    return w, ref, last, bad


def search(ctx, depth):
    from skepticoin import wallet as W
    rec = crashfs.Recorder(['wallet.json', 'wallet.json.new'])
    crashfs.install(W, rec)

    class Rnd:
        def choice(self, seq):
            return sorted(seq)[0]
    seams.rebind(W, 'random', Rnd())
    stats = {'states': 1, 'transitions': 0, 'saves': 0, 'snapshots': 0, 'loads': 0, 'handouts': 0}
    seen = set()
    frontier = [()]
    seen.add((wstate(new_wallet()), None, None))
    all_bad = []
    wallet_states = {}
    for d in range(depth):
        nxt = []
        for trace in frontier:
            for op in OPS:
                t2 = trace + (op,)
                r = rebuild(t2, rec, True)
                if r is None:
                    continue
                w, ref, last, bad = r
                stats['transitions'] += 1
                if op[0] == 'save':
                    stats['saves'] += 1
                    stats['snapshots'] += len(rec.snaps)
                if op[0] == 'load':
                    stats['loads'] += 1
                if op[0] == 'handout':
                    stats['handouts'] += 1
                if bad:
                    all_bad += bad
                    continue
                k = (wstate(w), file_text(), last)
                wallet_states[wstate(w)[:2]] = t2
                if k in seen:
                    continue
                seen.add(k)
                stats['states'] += 1
                nxt.append(t2)
        frontier = nxt
        if len(all_bad) > 40:
            break
    return stats, all_bad, wallet_states, rec


def balance_part(ctx, wallet_states):
    """get_balance in every reachable (unused / annotated) partition on ledger states paying those keys"""
    from skepticoin.coinstate import CoinState
    from skepticoin.wallet import Wallet
    ledger.setup()
    n = 0
    root = world.easy_root(miner=K[4])
    src = world.owned(root.utxo, K[4])[0]
    outs = [(5, KEYS[0]), (7, KEYS[1]), (11, KEYS[2]), (13, KEYS[0]), (100, K[2])]
    outs.append((root.utxo[src][0] - sum(v for v, _ in outs), K[5]))
    n1 = world.Node(world.assemble(root, [world.mk_tx([(world.oref(src), K[4])], outs)], KEYS[1], root.ts + 120), root)
    sp = world.owned(n1.utxo, KEYS[0])[0]
    n2 = world.Node(world.assemble(n1, [world.mk_tx([(world.oref(sp), KEYS[0])], [(n1.utxo[sp][0] - 1, KEYS[2])])], K[5], n1.ts + 120), n1)
    states = []
    cs = CoinState.empty().add_block_no_validation(root.block)
    states.append((root, cs))
    cs = cs.add_block(n1.block, n1.ts)
    states.append((n1, cs))
    cs = cs.add_block(n2.block, n2.ts)
    states.append((n2, cs))
    bad = []
    for (unused, ann), trace in sorted(wallet_states.items(), key=lambda x: len(x[1])):
        w = Wallet({k.pub: k.priv for k in KEYS}, list(unused), dict(ann))
        for node, cs in states:
            n += 1
            exp = sum(v for (v, pk) in node.utxo.values() if pk in w.keypairs)
            try:
                got = w.get_balance(cs)
            except Exception as e:
                got = 'raises %r' % (e,)
            if got != exp:
                bad.append(('balance', "get_balance = %s but unspent outputs paying wallet keys total %s (unused %d, annotated %d "
                            "keys)" % (got, exp, len(unused), len(ann)), trace))
                break
            # ... also after this wallet object has built a spend that is not in the chain (the outputs are still unspent)
            if exp >= 4:
                from skepticoin.wallet import create_spend_transaction
                try:
                    create_spend_transaction(w, cs, 3, 0, K[2].pk, K[1].pk)
                    n += 1
                    got2 = w.get_balance(cs)
                except Exception as e:
                    got2 = exp if 'nsufficient' in str(e) else 'raises %r' % (e,)
                if got2 != exp:
                    bad.append(('balance', "after this wallet object built a (not yet mined) spend, get_balance = %s on the same chain "
                                "state, unspent outputs paying wallet keys still total %s" % (got2, exp), trace))
                    break
                w = Wallet({k.pub: k.priv for k in KEYS}, list(unused), dict(ann))
    return n, bad


def big_wallet_crash(rec, n):
    """one save of a wallet with n keys (crosses the 8 KiB write buffer many times), old file present"""
    from skepticoin import wallet as W
    keys = [world.Key(0x7000 + i) for i in range(n)]
    for fn in ('wallet.json', 'wallet.json.new'):
        if os.path.exists(fn):
            os.remove(fn)
    w = new_wallet(keys)
    rec.active = False
    W.save_wallet(w)
    rec.active = True
    old = wstate(w)
    w.get_annotated_public_key('x')
    rec.reset()
    W.save_wallet(w)
    bad = []
    crash_check(rec, old, wstate(w), bad, (('big', n),))
    return len(rec.snaps), bad


def interrupted_saves(rec0, n=60):
    """a save cut short by something that UNWINDS THE STACK instead of killing the process: Ctrl-C (the normal way to stop the
    miner, which saves at start-up and after every found block) or a full disk, raised at every write boundary of the save in
    turn.  Whatever the unwinding runs (finally clauses, context managers), wallet.json is afterwards the complete previous
    or the complete new wallet"""
    import errno
    from skepticoin import wallet as W
    keys = [world.Key(0x7400 + i) for i in range(n)]
    bad = []
    npoints = 0

    class Interrupting(crashfs.Recorder):
        def __init__(self, watch, at, exc):
            crashfs.Recorder.__init__(self, watch)
            self.at, self.exc, self.count, self.fired = at, exc, 0, None

        def snap(self, label):
            if self.active and self.fired is None:
                if self.count == self.at:
                    self.fired = label
                    raise self.exc
                self.count += 1
    try:
        for exc_name, mk in (('KeyboardInterrupt', lambda: KeyboardInterrupt()), ('OSError(ENOSPC)', lambda: OSError(errno.ENOSPC, 'No space left on device'))):
            at = 0
            while True:
                for fn in ('wallet.json', 'wallet.json.new'):
                    if os.path.exists(fn):
                        os.remove(fn)
                w = new_wallet(keys)
                rec0.active = False
                crashfs.install(W, rec0)
                W.save_wallet(w)
                old = wstate(w)
                w.get_annotated_public_key('x')
                new = wstate(w)
                rec = Interrupting(['wallet.json', 'wallet.json.new'], at, mk())
                crashfs.install(W, rec)
                try:
                    W.save_wallet(w)
                except BaseException:
                    pass
                rec.active = False
                if rec.fired is None:
                    break                      # the save has fewer boundaries than `at`: all of them were tried
                npoints += 1
                tr = (('interrupted-save', exc_name, rec.fired),)
                try:
                    with open('wallet.json') as f:
                        p = parse_saved(f.read())
                except FileNotFoundError:
                    bad.append(('interrupted-save-file-missing', "%s raised at %s: wallet.json does not exist afterwards" % (exc_name, rec.fired), tr))
                    at += 1
                    continue
                if p is None:
                    bad.append(('interrupted-save-file-corrupt', "%s raised at %s: wallet.json cannot be loaded afterwards" % (exc_name, rec.fired), tr))
                elif p not in (old, new):
                    bad.append(('interrupted-save-file-mixed', "%s raised at %s: wallet.json is neither the previous nor the new wallet" % (exc_name, rec.fired), tr))
                at += 1
    finally:
        crashfs.install(W, rec0)
        rec0.active = True
    best = {}
    for k, what, tr in bad:
        best.setdefault(k, (k, what, tr))
    return npoints, list(best.values())


def receive_script_crashes(rec0):
    """the command that hands out a receiving address (skepticoin-receive), killed at every file-operation and output
    boundary, followed by a second invocation on whatever the first left on disk: an address the user has SEEN must not
    be shown again while unused keys remain"""
    import contextlib
    import sys
    from skepticoin import wallet as W
    from skepticoin.scripts import receive

    class Rec(crashfs.Recorder):
        def __init__(self, watch, out):
            crashfs.Recorder.__init__(self, watch)
            self.out = out

        def snap(self, label):
            if self.active:
                self.snaps.append((label, self.view(), ''.join(self.out.buf)))

    class Out:
        def __init__(self):
            self.buf = []
            self.rec = None

        def write(self, s):
            self.buf.append(s)
            if self.rec is not None:
                self.rec.snap('output(%d chars)' % len(s))
            return len(s)

        def flush(self):
            pass

    def addresses(text):
        return [ln for ln in text.split('\n') if ln.startswith('SKE')]

    def invoke(name, out):
        argv = sys.argv
        sys.argv = ['skepticoin-receive', name]
        try:
            with contextlib.redirect_stdout(out):
                receive.main()
        finally:
            sys.argv = argv
    bad = []
    n = 0
    try:
        from skepticoin.scripts import utils as SU
        real_generate = W.Wallet.generate_keys
        for handed_out_before in (0, 1, 2, 'no-wallet-yet'):
            for fn in ('wallet.json', 'wallet.json.new'):
                if os.path.exists(fn):
                    os.remove(fn)
            rec0.active = False
            if handed_out_before == 'no-wallet-yet':
                # the very first start in a directory: the command creates the wallet itself (scaled: 30 keys instead of 10,000).
                # The "previous wallet" is no file at all, so a crash may leave no wallet.json - but never a partial one
                W.Wallet.generate_keys = lambda self, n, real=real_generate: real(self, min(n, 30))
            else:
                w = new_wallet()
                for i in range(handed_out_before):
                    w.get_annotated_public_key('earlier %d' % i)
                W.save_wallet(w)
            out = Out()
            rec = Rec(['wallet.json', 'wallet.json.new'], out)
            out.rec = rec
            crashfs.install(W, rec)
            if hasattr(SU, 'os'):
                crashfs.install(SU, rec)
            rec.snap('start')
            try:
                invoke('alice', out)
            except BaseException as e:
                bad.append(('receive-script-raises', "skepticoin-receive raises %r" % (e,), (('receive-script', handed_out_before),)))
                continue
            rec.snap('end')
            snaps = list(rec.snaps)
            rec.active = False
            W.Wallet.generate_keys = real_generate
            seen_complete = False
            for label, view, shown in snaps:
                n += 1
                for fn, data in view.items():
                    if data is None:
                        if os.path.exists(fn):
                            os.remove(fn)
                    else:
                        with open(fn, 'wb') as f:
                            f.write(data)
                tr = (('receive-script', handed_out_before), ('killed-after', label))
                if view.get('wallet.json') is None and handed_out_before == 'no-wallet-yet' and not seen_complete:
                    continue
                seen_complete = seen_complete or view.get('wallet.json') is not None
                if view.get('wallet.json') is None:
                    bad.append(('wallet-file-missing-after-crash', "wallet.json does not exist after a crash at %s" % label, tr))
                    continue
                try:
                    with open('wallet.json') as f:
                        left = W.Wallet.load(f)
                except Exception as e:
                    bad.append(('wallet-file-unreadable-after-crash', "wallet.json cannot be loaded after a crash at %s: %r" % (label, e), tr))
                    continue
                out2 = Out()
                try:
                    invoke('bob', out2)
                except BaseException as e:
                    bad.append(('receive-script-raises', "second invocation raises %r after a crash at %s" % (e, label), tr))
                    continue
                again = set(addresses(shown)) & set(addresses(''.join(out2.buf)))
                if again and len(left.unused_public_keys) > 0:
                    bad.append(('address-shown-twice-across-crash', "killed at %s the command had already shown an address; the "
                                "next invocation shows the same address to someone else although %d unused keys remained" % (
                                    label, len(left.unused_public_keys)), tr))
    finally:
        W.Wallet.generate_keys = real_generate
        crashfs.install(W, rec0)
        try:
            import builtins
            SU.open = builtins.open
            SU.os = os
        except Exception:
            pass
        rec0.active = True
    best = {}
    for k, what, tr in bad:
        best.setdefault(k, (k, what, tr))
    return n, list(best.values())


def run(ctx):
    depth = 7 if ctx.quick else 9
    stats, bad, wallet_states, rec = search(ctx, depth)
    nb, bad2 = balance_part(ctx, wallet_states)
    nbig, bad3 = big_wallet_crash(rec, 100 if ctx.quick else 400)
    nrc, bad4 = receive_script_crashes(rec)
    ctx.cov['receive_command_crash_points'] = nrc
    nint, bad5 = interrupted_saves(rec)
    ctx.cov['interrupted_save_points'] = nint
    bad3 = bad3 + bad4 + bad5
    for key, what, trace in bad + bad2 + bad3:
        ctx.violation(key, "%s; operations %s" % (what, [' '.join(map(str, o)) for o in trace]), {'trace': [list(o) for o in trace]})
    ctx.cov.update({
        'states': stats['states'], 'transitions': stats['transitions'] + nb,
        'traces_validated_against_impl': stats['transitions'],
        'samples': [[list(o) for o in t] for t in sorted(wallet_states.values(), key=len)[-2:]],
        'exhaustive': True, 'depth': depth, 'saves_executed': stats['saves'], 'crash_snapshots_checked': stats['snapshots'] + nbig,
        'big_wallet_snapshots': nbig, 'balance_queries': nb, 'wallet_partitions': len(wallet_states),
        'rule': "BFS over operation sequences (hand-out a/b, restore, save, load, dump+load) on a 3-key wallet to depth %d, "
                "states de-duplicated on (wallet content, wallet file text, last handed-out key); every transition is compared "
                "with the reference wallet; every save is snapshotted at each raw write/close/rename and every snapshot is "
                "recovered with the real loader" % depth,
    })
    ctx.assumptions.append("process-crash model: the kernel's view at every write/close/rename boundary; no power-loss "
                           "reordering (nothing is fsynced and the property does not ask)")


def replay(data, ctx):
    from skepticoin import wallet as W
    trace = tuple(tuple(o) for o in data['trace'])
    rec = crashfs.Recorder(['wallet.json', 'wallet.json.new'])
    crashfs.install(W, rec)
    if trace and trace[0][0] == 'big':
        n, bad = big_wallet_crash(rec, trace[0][1])
        return [(k, w) for k, w, _ in bad]
    if trace and trace[0][0] == 'receive-script':
        n, bad = receive_script_crashes(rec)
        return [(k, w) for k, w, _ in bad]
    if trace and trace[0][0] == 'interrupted-save':
        n, bad = interrupted_saves(rec)
        return [(k, w) for k, w, _ in bad]

    class Rnd:
        def choice(self, seq):
            return sorted(seq)[0]
    W.random = Rnd()
    r = rebuild(trace, rec, True)
    out = []
    if r is not None:
        w, ref, last, bad = r
        out = [(k, what) for k, what, _ in bad]
    n, bad2 = balance_part(ctx, {(tuple(), tuple()): ()} if not trace else _partition_of(trace, rec))
    out += [(k, what) for k, what, _ in bad2]
    return out


def _partition_of(trace, rec):
    r = rebuild(trace, rec, False)
    if r is None:
        return {}
    return {wstate(r[0])[:2]: trace}
