"""C17 - merkle commitment binds the ordered id list; inclusion proofs verify.  Exhaustive over all lists
on a small alphabet up to a length, all single edits and all proof positions for every length up to n."""
import hashlib
import itertools

LEVEL = 'exploration'


def leaf(i):
    return hashlib.sha256(b'vf-leaf-%d' % i).digest()


def _lists_worker(arg):
    """all lists over alphabet of size a with the given first element and length 1..L -> {root: list}"""
    from skepticoin.merkletree import get_merkle_root, get_merkle_tree
    a, L, first = arg[:3]
    ids = [leaf(i) for i in range(a)]
    if len(arg) > 3:
        # an alphabet with the ids other code treats as special: all-zero ("no hash") and all-ones
        ids = [b'\x00' * 32, b'\xff' * 32] + ids[2:]
    roots = {}
    bad = []
    n = 0
    for ln in range(1, L + 1):
        for rest in itertools.product(range(a), repeat=ln - 1):
            lst = (first,) + rest
            n += 1
            try:
                r = get_merkle_root([ids[i] for i in lst])
            except Exception:
                r = b'raised'
            if r in roots and len(bad) < 3:
                bad.append((roots[r], lst))
            roots[r] = lst
            if ln <= 6 or rest[:1] == (0,):
                try:
                    t = get_merkle_tree([ids[i] for i in lst]).hash()
                except Exception:
                    t = None
                if t != r and len(bad) < 3:
                    bad.append(('tree-vs-root', lst))
    return roots, bad, n


def edits(lst, fresh):
    """every single structural edit of lst (as (name, new list)); fresh = iterator of unused ids"""
    n = len(lst)
    for i in range(n):
        yield ('subst@%d' % i, lst[:i] + [fresh] + lst[i + 1:])
        if n > 1:
            yield ('delete@%d' % i, lst[:i] + lst[i + 1:])
        yield ('dup-in-place@%d' % i, lst[:i + 1] + [lst[i]] + lst[i + 1:])
        yield ('insert-fresh@%d' % i, lst[:i] + [fresh] + lst[i:])
        for j in range(i + 1, n):
            l2 = list(lst)
            l2[i], l2[j] = l2[j], l2[i]
            yield ('swap@%d,%d' % (i, j), l2)
    yield ('append-fresh', lst + [fresh])
    yield ('append-copy-of-last', lst + [lst[-1]])
    yield ('append-copy-of-first', lst + [lst[0]])
    if n > 1:
        yield ('rotate', lst[1:] + lst[:1])
        yield ('reverse', lst[::-1])


def proof_leaves(node, out):
    if not node.children:
        out.append((node.index, node.value))
    else:
        for c in node.children:
            proof_leaves(c, out)


def _len_worker(n):
    from skepticoin.merkletree import get_merkle_root, get_merkle_tree, get_proof
    lst = [leaf(100 + i) for i in range(n)]
    fresh = leaf(99)
    bad = []
    ne = 0
    try:
        root = get_merkle_root(list(lst))
        tree = get_merkle_tree(list(lst))
        if tree.hash() != root:
            bad.append(('tree-vs-root', n, None))
    except Exception as e:
        return [('raises', n, repr(e))], 0, 0
    for name, l2 in edits(lst, fresh):
        ne += 1
        if l2 == lst:
            continue
        try:
            same = get_merkle_root(list(l2)) == root
        except Exception:
            same = True
        if same:
            bad.append(('edit', n, name))
    # the same edits performed IN PLACE on one list object that was committed to before (and restored afterwards): what
    # was computed for the earlier content must not be served for the edited content
    work = list(lst)
    for name, l2 in edits(lst, fresh):
        if l2 == lst:
            continue
        ne += 1
        try:
            r0 = get_merkle_root(work)
            t0 = get_merkle_tree(work).hash()
            work[:] = l2
            r1 = get_merkle_root(work)
            t1 = get_merkle_tree(work).hash()
            ok = r0 == root and t0 == root and r1 != root and t1 == r1 and r1 == get_merkle_root(list(l2))
            work[:] = lst
        except Exception:
            ok = False
            work = list(lst)
        if not ok:
            bad.append(('edit-in-place', n, name))
            break
    npf = 0
    tree_desc = get_merkle_tree(list(lst))
    for i in list(range(n)) + [-(j + 1) for j in range(n)]:
        npf += 1
        try:
            # ascending on one tree object, then descending on another: producing a proof must not disturb later ones
            p = get_proof(tree, i) if i >= 0 else get_proof(tree_desc, n + i)
            i = i if i >= 0 else n + i
            lv = []
            proof_leaves(p, lv)
            ph = p.hash()
        except Exception:
            bad.append(('proof-raises', n, i))
            continue
        if ph != root:
            bad.append(('proof-root', n, i))
        elif (i, lst[i]) not in lv:
            bad.append(('proof-entry', n, i))
    return bad[:5], ne, npf


def _block_edits(ctx):
    """on a real block: each edit of the transaction list with the header kept is refused by the block check"""
    from skepticoin.datatypes import Block
    from skepticoin import consensus
    from .. import seams, world
    from ..world import K
    seams.fast_pow()
    root = world.easy_root()
    n1 = world.Node(world.assemble(root, [], K[0], world.T0 + 120), root)
    n2 = world.Node(world.assemble(n1, [], K[0], world.T0 + 240), n1)
    n3 = world.Node(world.assemble(n2, [], K[0], world.T0 + 360), n2)
    # five independent spends (of three reward outputs, split), then blocks carrying 2..5 of them
    srcs = world.owned(n3.utxo, K[0])
    txs = [world.mk_tx([(world.oref(r), K[0])], [(10 + i, K[1]), (n3.utxo[r][0] - 10 - i - 1, K[0])])
           for i, r in enumerate(srcs)]
    extra = world.mk_tx([(world.oref(srcs[0]), K[0])], [(77, K[2])])   # valid alone, conflicts with txs[0]
    cnt = 0
    for k in range(1, len(txs) + 1):
        blk = world.assemble(n3, txs[:k], K[4], world.T0 + 480)
        now = world.T0 + 480
        try:
            # the commitment placed in the header is the implementation's own
            blk = world.assemble(n3, txs[:k], K[4], world.T0 + 480,
                                 merkle=consensus.calc_merkle_root_hash(blk.transactions))
            consensus.validate_block_by_itself(blk, now)
        except Exception as e:
            ctx.notes.append("C17(iii) vacuous for k=%d: control block rejected: %r" % (k, e))
            continue
        for name, l2 in edits(list(blk.transactions), extra):
            if [id(t) for t in l2] == [id(t) for t in blk.transactions]:
                continue
            cnt += 1
            b2 = Block(blk.header, l2)
            try:
                consensus.validate_block_by_itself(b2, now)
                ctx.violation('block-edit-accepted', "block with %d transactions: list edit %s keeps the header "
                              "acceptable" % (k + 1, name), {'kind': 'block', 'k': k, 'edit': name})
            except Exception:
                pass
    return cnt


def _size_worker(ns):
    """size sweep: lengths around every power of two up to 4096 (and k*2^m + 1): edits of the LAST entries (the ones a
    paging / chunking loop can lose) change the commitment, tree and root agree, proofs at the ends and in the middle verify"""
    from skepticoin.merkletree import get_merkle_root, get_merkle_tree, get_proof
    bad = []
    cnt = 0
    fresh = leaf(999_999)
    for n in ns:
        lst = [leaf(300_000 + i) for i in range(n)]
        try:
            root = get_merkle_root(list(lst))
            tree = get_merkle_tree(list(lst))
        except Exception as e:
            bad.append(('size-raises', n, repr(e)))
            continue
        if tree.hash() != root:
            bad.append(('size-tree-vs-root', n, None))
        eds = [('append-fresh', lst + [fresh]), ('append-copy-of-last', lst + [lst[-1]]), ('subst-last', lst[:-1] + [fresh])]
        if n > 1:
            eds += [('delete-last', lst[:-1]), ('subst-second-last', lst[:-2] + [fresh, lst[-1]]), ('swap-last-two', lst[:-2] + [lst[-1], lst[-2]])]
        for name, l2 in eds:
            cnt += 1
            try:
                same = get_merkle_root(list(l2)) == root
            except Exception:
                same = True
            if same:
                bad.append(('size-edit', n, name))
        for pos in sorted({0, n // 2, max(0, n - 2), n - 1}):
            cnt += 1
            try:
                p = get_proof(tree, pos)
                lv = []
                proof_leaves(p, lv)
                ok = p.hash() == root and (pos, lst[pos]) in lv
            except Exception:
                ok = False
            if not ok:
                bad.append(('size-proof', n, pos))
    return bad[:5], cnt


def size_lengths():
    ns = set()
    for m in range(1, 13):
        k = 1 << m
        ns |= {k - 1, k, k + 1, 2 * k + 1, 3 * k + 1, 3 * k}
    ns |= {1000, 1500, 3000, 4097}
    return sorted(x for x in ns if 1 <= x <= 4100)


def _pair_worker(arg):
    """call-history independence of trees and proofs: for every ordered pair (L1, L2) of lists over `a` ids with length
    1..L whose L1 is in this worker's share: commit to L1 (tree + root), then build the tree of L2 and take the proof of
    every position of L2"""
    from skepticoin.merkletree import get_merkle_root, get_merkle_tree, get_proof
    a, L, share, nshares = arg
    ids = [leaf(200 + i) for i in range(a)]
    lists = [lst for n in range(1, L + 1) for lst in itertools.product(range(a), repeat=n)]
    want = {}
    bad = []
    n = 0
    for k1, l1 in enumerate(lists):
        if k1 % nshares != share:
            continue
        v1 = [ids[i] for i in l1]
        for l2 in lists:
            n += 1
            v2 = [ids[i] for i in l2]
            try:
                get_merkle_root(v1)
                get_merkle_tree(v1)
                t2 = get_merkle_tree(v2)
                r2 = get_merkle_root(v2)
                if l2 not in want:
                    want[l2] = r2
                ok = t2.hash() == r2 == want[l2]
                where = 'commitment'
                if ok:
                    for pos in range(len(v2)):
                        p = get_proof(t2, pos)
                        lv = []
                        proof_leaves(p, lv)
                        if p.hash() != r2 or (pos, v2[pos]) not in lv:
                            ok = False
                            where = 'proof for position %d' % pos
                            break
            except Exception as e:
                ok = False
                where = 'raises %r' % (e,)
            if not ok:
                if len(bad) < 3:
                    bad.append((list(l1), list(l2), where))
    return bad, n


def _node_edits_worker(mode):
    """the commitment on a running node, at a height for which the node has a built-in checkpoint (the seam: the checkpoint
    table names the genuine block's id at its height and the horizon is at / above / below that height): a peer delivers the
    genuine header with an edited transaction list - as a relay and as the answer to a request - before the genuine block;
    every edited copy is refused and the genuine block is adopted afterwards"""
    from . import c13
    from .. import ledger, refmodel, seams, world
    from ..world import K
    from skepticoin import consensus
    from skepticoin.datatypes import Block
    from skepticoin.networking.messages import DataMessage, DATA_BLOCK
    c13.setup_worker()
    out = []
    n = 0
    w0 = c13.World()
    H = w0.head()
    V = w0.uni.get(H.path + ('d',))           # reward + two spends
    extra = ledger.tx_payload(H, 'b')[0][0]
    if V is None:
        return 0, [('harness', 'no block with two spends on the base head')]
    horizon = {'at': V.height, 'above': V.height + 5, 'below': V.height - 1}[mode]
    seams.rebind(consensus, 'KNOWN_HASHES', {V.height: V.bid.hex()})
    seams.rebind(consensus, 'MAX_KNOWN_HASH_HEIGHT', horizon)
    try:
        for name, l2 in edits(list(V.block.transactions), extra):
            if [id(t) for t in l2] == [id(t) for t in V.block.transactions]:
                continue
            for irt in (0, 77):
                w = c13.World()
                w.net.clock.t = max(w.net.clock.t, V.ts + 50)
                fake = Block(V.block.header, l2)
                try:
                    wire = world.from_wire(fake)
                except Exception:
                    continue
                n += 1
                w.peer().send(DataMessage(DATA_BLOCK, wire), in_response_to=irt)
                cs = w.node.cm.coinstate
                if V.bid in cs.block_by_hash:
                    got = cs.block_by_hash[V.bid]
                    out.append(('block-edit-accepted', "checkpoint for height %d names the genuine block, horizon %s it: the genuine "
                                "header with transaction-list edit '%s' delivered %s is taken into the chain state (%d transactions)"
                                % (V.height, mode, name, 'as a relay' if not irt else 'as the answer to a request',
                                   len(got.transactions))))
                    continue
                w.peer().send(DataMessage(DATA_BLOCK, world.from_wire(V.block)), in_response_to=irt)
                cs = w.node.cm.coinstate
                if V.bid not in cs.block_by_hash or [t.hash() for t in cs.block_by_hash[V.bid].transactions] != \
                        [refmodel.enc.txid(t) for t in V.block.transactions]:
                    out.append(('genuine-block-refused-after-edit', "after the edited copy ('%s') was refused the genuine block is not "
                                "adopted" % name))
            if len(out) > 3:
                break
    finally:
        seams.rebind(consensus, 'KNOWN_HASHES', {})
        seams.rebind(consensus, 'MAX_KNOWN_HASH_HEIGHT', -1)
    return n, out[:4]


def run(ctx):
    a, L = (3, 9) if ctx.quick else (4, 9)
    N = 80 if ctx.quick else 140
    jobs = [(a, L, f) for f in range(a)] + [(3, 8, f, 'special') for f in range(3)]
    if not ctx.quick:
        jobs += [(2, 16, f) for f in range(2)]
    res = ctx.pmap(_lists_worker, jobs)
    nlists = 0
    for (aa, LL, sp) in sorted({(j[0], j[1], len(j) > 3) for j in jobs}):
        allroots = {}
        for j, r in zip(jobs, res):
            if (j[0], j[1], len(j) > 3) != (aa, LL, sp):
                continue
            nlists += r[2]
            for b in r[1]:
                ctx.violation('root-collision', "lists %r and %r over %d ids have the same commitment" % (b[0], b[1], aa),
                              {'kind': 'lists', 'a': aa, 'special': sp, 'x': list(b[0]) if b[0] != 'tree-vs-root' else None,
                               'y': list(b[1])})
            for root, lst in r[0].items():
                if root in allroots:
                    ctx.violation('root-collision', "lists %r and %r over %d ids have the same commitment"
                                  % (allroots[root], lst, aa), {'kind': 'lists', 'a': aa, 'special': sp, 'x': list(allroots[root]),
                                                                'y': list(lst)})
                allroots[root] = lst
    lens = list(range(1, N + 1))
    if ctx.seed:
        import random
        random.Random(ctx.seed).shuffle(lens)
    res2 = ctx.pmap(_len_worker, lens)
    ne = npf = 0
    for bad, e, p in res2:
        ne += e
        npf += p
        for kind, n, x in bad:
            ctx.violation('%s' % kind, "length %d: %s %s" % (n, kind, x), {'kind': 'len', 'n': n})
    nb = _block_edits(ctx)
    pa, pL = 4, 4
    nsh = ctx.ncpu * 2
    npairs = 0
    pjobs = [(pa, pL, i, nsh) for i in range(nsh)]
    if not ctx.quick:
        pjobs += [(3, 6, i, nsh) for i in range(nsh)]
    for bad, n in ctx.pmap(_pair_worker, pjobs):
        npairs += n
        for l1, l2, where in bad:
            ctx.violation('tree-depends-on-call-history', "after committing to list %r, the %s of list %r (over %d ids) is wrong" % (
                l1, where, l2, pa), {'kind': 'pair', 'a': pa, 'L': pL, 'l1': l1, 'l2': l2})
    npf += npairs
    nne = 0
    for mode, (cnt_, nbad) in zip(('at', 'above', 'below'), ctx.pmap(_node_edits_worker, ['at', 'above', 'below'])):
        nne += cnt_
        for key, what in nbad:
            ctx.violation(key, what, {'kind': 'node-edits', 'mode': mode})
    ctx.cov['edited_copies_delivered_to_a_node_at_a_checkpointed_height'] = nne
    ctx.cov['history_pairs'] = npairs
    sl = size_lengths()
    nsz = 0
    for bad, c in ctx.pmap(_size_worker, [sl[i::16] for i in range(16)]):
        nsz += c
        for kind, n_, x in bad:
            ctx.violation(kind, "length %d: %s %s" % (n_, kind, x), {'kind': 'size', 'n': n_})
    npf += nsz
    ctx.cov['size_sweep'] = {'lengths': len(sl), 'largest': sl[-1], 'checks': nsz}
    # ---- two threads computing commitments / proofs of different lists at the same time (the miner thread does so for every
    #      work request while the networking thread validates blocks)
    from .. import thrscen
    ctx.cov['thread_schedules'] = thrscen.run(ctx, 'C17', 1 if ctx.quick else 2)
    ctx.cov.update({
        'evaluations': nlists + ne + npf + nb, 'distinct_nontrivial': nlists + ne,
        'rule': "(i) every list over an alphabet of %d independent ids with length 1..%d%s (and over {all-zero id, all-ones id, one ordinary id} up to length 8): commitments pairwise distinct; "
                "(ii) every length 1..%d: every single edit (substitute, delete, duplicate in place, insert, every swap, "
                "append fresh / copy of last / copy of first, rotate, reverse) changes the commitment and the proof for "
                "every position reproduces it and contains the entry; (iii) the same edits on the transaction lists of "
                "real blocks with the header kept are refused; (iv) every ordered pair of lists over 4 ids with length <= %d (thorough: also over 3 ids with length <= 6): "
                "tree and all proofs of the second list right after committing to the first. distinct = lists + edits enumerated"
                % (a, L, "" if ctx.quick else " and over 2 ids with length 1..16", N, pL),
        'samples': [{'lists_over_alphabet': a, 'first': [0], 'last': [a - 1] * L}, {'length': lens[0], 'edits': [e[0] for e in edits([1, 2, 3], 9)][:8]}],
        'exhaustive': True, 'lists': nlists, 'edits': ne, 'proofs': npf, 'block_edits': nb,
    })


def replay(data, ctx):
    if 'thread_scenario' in data:
        from .. import thrscen
        return thrscen.replay(data)
    from skepticoin.merkletree import get_merkle_root
    out = []
    if data['kind'] == 'node-edits':
        return _node_edits_worker(data['mode'])[1]
    if data['kind'] == 'lists':
        ids = [leaf(i) for i in range(data['a'])]
        if data.get('special'):
            ids = [b'\x00' * 32, b'\xff' * 32] + ids[2:]

        def rt(l):
            try:
                return get_merkle_root([ids[i] for i in l])
            except Exception:
                return b'raised'
        if data['x'] is None:
            from skepticoin.merkletree import get_merkle_tree
            try:
                t = get_merkle_tree([ids[i] for i in data['y']]).hash()
            except Exception:
                t = None
            if t != rt(data['y']):
                out.append(('root-collision', 'tree differs from root'))
        elif rt(data['x']) == rt(data['y']):
            out.append(('root-collision', 'same commitment'))
    elif data['kind'] == 'pair':
        # the failing pair alone; the worker's enumeration order around it is reproduced by the whole-run confirmation
        from skepticoin.merkletree import get_merkle_tree, get_proof
        ids = [leaf(200 + i) for i in range(data['a'])]
        v1 = [ids[i] for i in data['l1']]
        v2 = [ids[i] for i in data['l2']]
        try:
            get_merkle_root(v1)
            get_merkle_tree(v1)
            t2 = get_merkle_tree(v2)
            r2 = get_merkle_root(v2)
            ok = t2.hash() == r2
            for pos in range(len(v2)):
                p = get_proof(t2, pos)
                lv = []
                proof_leaves(p, lv)
                ok = ok and p.hash() == r2 and (pos, v2[pos]) in lv
        except Exception:
            ok = False
        if not ok:
            out.append(('tree-depends-on-call-history', 'reproduced'))
    elif data['kind'] == 'size':
        bad, _ = _size_worker([data['n']])
        out = [(k, 'length %d %s' % (n, x)) for k, n, x in bad]
    elif data['kind'] == 'len':
        bad, _, _ = _len_worker(data['n'])
        out = [(k, 'length %d %s' % (n, x)) for k, n, x in bad]
    else:
        c2 = type(ctx)(ctx.pid, ctx.tier, ctx.seed)
        _block_edits(c2)
        out = [(k, v['what']) for k, v in c2.violations.items()]
    return out
