"""C04 - fork choice.  Every sequence in which each new (empty) block picks any earlier block as parent, up to n
blocks, driven through the real CoinState.add_block; after every arrival the head, the tip set, the by-height
index of *every* stored block and forks() are compared with the reference fork choice (first-seen max height)."""
from .. import ledger, refmodel, world
from ..world import K

LEVEL = 'model_checking'


def payload(parent, k):
    # the k-th child of a parent is one fixed block; siblings differ in miner key and timestamp
    return [], K[(k % 2) * 4], 120 + k


def payload_t(parent, k):
    # block times far apart or close together, so that with a short retarget period competing branches carry
    # different targets (the rule under test must still compare heights only)
    return [], K[(k % 2) * 4], (30, 700, 120, 45)[k % 4], {'cb_data': b'child %d' % k}


def make_universe(varied=False):
    return world.Universe(world.easy_root(), payload_t if varied else payload)


def compare(cs, fc, nodes_by_id):
    """returns None or a short description of the first difference"""
    hd = fc.head()
    if cs.current_chain_hash != hd.bid:
        return 'head', "head is %s, first-seen block of greatest height is %s" % (
            nodes_by_id[cs.current_chain_hash].path if cs.current_chain_hash in nodes_by_id else cs.current_chain_hash,
            hd.path)
    if set(cs.heads.keys()) != fc.tips():
        return 'tips', "tip set %s, blocks without stored children %s" % (
            sorted((nodes_by_id[b].path for b in cs.heads.keys() if b in nodes_by_id), key=repr),
            sorted((nodes_by_id[b].path for b in fc.tips()), key=repr))
    for n in fc.order:
        if n.bid not in cs.block_by_height_by_hash:
            return 'index', "no by-height index at stored block %s" % (n.path,)
        m = cs.block_by_height_by_hash[n.bid]
        got = {h: b.hash() for h, b in m.items()}
        if got != refmodel.ForkChoice.index(n):
            return 'index', "by-height index at %s lists %s" % (n.path, sorted(got.keys()))
    if set(cs.block_by_hash.keys()) != {n.bid for n in fc.order}:
        return 'stored', "stored block set differs"
    try:
        fk = {t.hash(): l.hash() for t, l in cs.forks()}
    except Exception as e:
        return 'forks', "forks() raises %r" % (e,)
    if fk != fc.forks():
        return 'forks', "forks() reports %s" % sorted(((nodes_by_id[a].path, nodes_by_id[b].path) for a, b in fk.items()), key=repr)
    return None


def dfs(uni, cs, fc, hist, nchildren, n, now, stats, out, validated):
    if len(hist) == n:
        stats['complete'] += 1
        return
    stored = [uni.root] + [uni.get(p) for p in hist]
    for par in stored:
        k = nchildren.get(par.path, 0)
        node = uni.get(par.path + (k,))
        try:
            cs2 = cs.add_block(node.block, now) if validated else cs.add_block_no_validation(node.block)
        except Exception as e:
            stats['transitions'] += 1
            if len(out) < 20:
                out.append(('rejected', "valid empty block %s refused: %r" % (node.path, e), list(hist) + [node.path]))
            continue
        fc2 = fc.copy()
        fc2.add(node)
        stats['transitions'] += 1
        stats['states'] += 1
        # sibling-id guard: record whether a later-arriving equal-height competitor has a smaller or larger id
        hd = fc.head()
        if node.height == hd.height and node.bid != hd.bid:
            stats['tie_later_smaller' if node.bid < hd.bid else 'tie_later_larger'] += 1
        if node.height > hd.height and par.bid != hd.bid:
            stats['reorgs'] += 1
        ids = {m.bid: m for m in fc2.order}
        d = compare(cs2, fc2, ids)
        if d is not None:
            if len(out) < 20:
                out.append((d[0], d[1], list(hist) + [node.path]))
            continue
        nchildren[par.path] = k + 1
        dfs(uni, cs2, fc2, hist + (node.path,), nchildren, n, now, stats, out, validated)
        nchildren[par.path] = k
    return


def _worker(arg):
    prefix, n, validated = arg[:3]
    varied = len(arg) > 3 and arg[3]
    ledger.setup()
    from .. import seams
    # retarget period 2 (varied-target universe) or the real one
    seams.retarget_period(2, 240) if varied else seams.retarget_period(10080, 1209600)
    uni = make_universe(varied)
    now = world.T0 + 10**6
    stats = {'states': 0, 'transitions': 0, 'complete': 0, 'tie_later_smaller': 0, 'tie_later_larger': 0, 'reorgs': 0}
    out = []
    cs, fc = ledger.build(uni, prefix, now, validated)
    nch = {}
    for p in prefix:
        nch[p[:-1]] = nch.get(p[:-1], 0) + 1
    dfs(uni, cs, fc, tuple(prefix), nch, n, now, stats, out, validated)
    return stats, out


def lopsided_histories(n):
    """one long chain (first children) of n blocks and a stale tip / a stale 2-block branch left behind at height 1, 2 or 5,
    arriving first, early or late: histories as path tuples"""
    chain = [tuple([0] * h) for h in range(1, n + 1)]
    out = []
    for d in (1, 2, 5):
        stale = tuple([0] * (d - 1)) + (1,)
        for extra in ([stale], [stale, stale + (0,)]):
            for at in (d - 1, d, d + 3):             # the stale blocks arrive when the chain has height `at`
                out.append(tuple(chain[:at] + extra + chain[at:]))
    return out


def _lopsided_worker(arg):
    hist, validated = arg
    ledger.setup()
    from .. import seams
    from skepticoin.coinstate import CoinState
    seams.retarget_period(10080, 1209600)
    uni = make_universe()
    now = world.T0 + 10**7
    cs = CoinState.empty().add_block_no_validation(uni.root.block)
    fc = refmodel.ForkChoice()
    fc.add(uni.root)
    n = 0
    for i, p in enumerate(hist):
        node = uni.get(p)
        try:
            cs = cs.add_block(node.block, now) if validated else cs.add_block_no_validation(node.block)
        except Exception as e:
            return n, ('rejected', "valid block refused: %r" % (e,), hist[:i + 1])
        fc.add(node)
        n += 1
        ids = {m.bid: m for m in fc.order}
        d = None
        if cs.current_chain_hash != fc.head().bid:
            d = ('head', "head is not the first-seen block of greatest height")
        elif set(cs.heads.keys()) != fc.tips():
            d = ('tips', "tip set has %d entries %s, blocks without stored children: %s" % (
                len(cs.heads), sorted(ids[b].height for b in cs.heads if b in ids), sorted(ids[b].height for b in fc.tips())))
        elif i < 12 or i == len(hist) - 1 or i % 16 == 0:
            d = compare(cs, fc, ids)
        if d:
            return n, (d[0], d[1] + " (one chain of %d blocks and a stale tip left far behind)" % fc.head().height, hist[:i + 1])
    return n, None


def _node_worker(arg):
    """the same rule at the level of the node: every parent-choice sequence of 5 blocks is delivered by a peer to a real node,
    as relays (in_response_to = 0) and as answers to a request (bulk-download path); after every arrival the node's chain
    state is compared with the reference fork choice"""
    hists, in_response_to = arg
    noise = in_response_to == 'noise'       # relays, and after every arrival a relayed block that fails full validation
    if noise:
        in_response_to = 0
    from .. import seams, simnet
    from skepticoin.coinstate import CoinState
    from skepticoin.networking.messages import DataMessage, DATA_BLOCK
    ledger.setup()
    seams.retarget_period(10080, 1209600)
    uni = make_universe()
    net = simnet.Net(seams.Clock(world.T0 + 10**6))
    net.install()
    out = []
    n = 0
    for hist in hists:
        for lst in (net.escaped, net.dialling, net.connections, net.nodes):
            lst.clear()
        net.listeners.clear()
        net._eph = 40000
        cs0 = CoinState.empty().add_block_no_validation(uni.root.block)
        node = simnet.SimNode(net, 'N', '10.0.0.1', cs0)
        D = simnet.Remote(net, node, host='5.5.5.5')
        D.hello(nonce=1)
        node.tick()
        D.received()
        fc = refmodel.ForkChoice()
        fc.add(uni.root)
        dropped = False
        for i, p in enumerate(hist):
            nd = uni.get(p)
            D.send(DataMessage(DATA_BLOCK, world.from_wire(nd.block)), in_response_to=in_response_to)
            D.received()
            if noise:
                # a block on the node's head that passes the stand-alone checks and over-claims its reward by one unit
                hd = [m for m in fc.order + [nd] if m.bid == node.cm.coinstate.current_chain_hash]
                if hd:
                    try:
                        junk = world.assemble(hd[0], [], K[5], hd[0].ts + 77, cb_outs=[(refmodel.subsidy(hd[0].height + 1) + 1, K[5])],
                                              cb_data=b'junk %d' % i)
                        D.send(DataMessage(DATA_BLOCK, world.from_wire(junk)))
                        D.received()
                    except Exception:
                        pass
            n += 1
            cs = node.cm.coinstate
            fc.add(nd)
            if nd.bid not in cs.block_by_hash:
                # the node did not keep a valid arrival whose parent had arrived before it.  Acceptance as such is not what
                # C04 states - but the head must still be the first-seen arrival of greatest total work, so from here on only
                # the head is compared (tips and indexes are defined over stored blocks)
                dropped = True
            if dropped:
                if cs.current_chain_hash != fc.head().bid:
                    out.append(('head', "head has height %d, the first-seen arrival of greatest total work is %s (height %d); the node "
                                "did not keep a valid block delivered %s" % (
                                    cs.head().height, '/'.join(map(str, fc.head().path)), fc.head().height,
                                    ('as a relay' if not in_response_to else 'as the answer to a request') +
                                    (' (every arrival is followed by a relayed block that fails full validation)' if noise else '')),
                                hist[:i + 1], 'noise' if noise else in_response_to))
                    break
                continue
            d = compare(cs, fc, {m.bid: m for m in fc.order})
            if d:
                out.append((d[0], d[1] + (" (node level, blocks delivered %s%s)" % (
                    'as relays' if not in_response_to else 'as answers to a request',
                    ', each followed by a relayed block that fails full validation' if noise else '')), hist[:i + 1],
                    'noise' if noise else in_response_to))
                break
        if net.escaped:
            out.append(('node-exception', "node handler: %s" % (net.escaped[0],), hist, in_response_to))
        if len(out) > 5:
            break
    return n, out


def _miner_node_worker(hists):
    """fork choice with the node's own miner among the sources of blocks: the blocks of every parent-choice sequence are
    relayed to a real node whose MinerWatcher asks for work after the i-th arrival and reports a winning hash after the j-th
    (every i <= j); the found block is an arrival like any other (a child of the head at the time of the request), and after
    every arrival the node's served chain state is compared with the reference fork choice"""
    import os
    from .. import enc, seams, simnet
    from skepticoin import consensus, mining
    from skepticoin.coinstate import CoinState
    from skepticoin.datatypes import Block, BlockHeader, BlockSummary
    from skepticoin.networking.messages import DataMessage, DATA_BLOCK
    from skepticoin.wallet import Wallet
    ledger.setup()
    seams.retarget_period(10080, 1209600)
    seams.deterministic_wallet_signing()
    uni = make_universe()
    net = simnet.Net(seams.Clock(world.T0 + 10**6))
    net.install()
    seams.rebind(mining, 'time', net.clock)
    d = os.path.join(os.getcwd(), 'c04-%d' % os.getpid())
    os.makedirs(d, exist_ok=True)
    os.chdir(d)

    class Q:
        def __init__(self):
            self.items = []

        def put(self, x):
            self.items.append(x)
    out = []
    n = 0
    for hist in hists:
        L = len(hist)
        for i, j in [(i, j) for i in range(L + 1) for j in range(i, L + 1)]:
            for lst in (net.escaped, net.dialling, net.connections, net.nodes):
                lst.clear()
            net.listeners.clear()
            net._eph = 40000
            cs0 = CoinState.empty().add_block_no_validation(uni.root.block)
            node = simnet.SimNode(net, 'N', '10.0.0.1', cs0)
            D = simnet.Remote(net, node, host='5.5.5.5')
            D.hello(nonce=1)
            node.tick()
            D.received()
            mw = mining.MinerWatcher.__new__(mining.MinerWatcher)
            mw.wallet = Wallet({K[6].pub: K[6].priv, K[7].pub: K[7].priv}, [K[6].pub, K[7].pub], {})
            mw.coinstate = cs0
            mw.mining_args = {}
            mw.hash_stats = {}
            mw.send_queues = [Q()]
            mw.log_silencer = []
            from decimal import Decimal
            import datetime
            mw.balance = Decimal(0)
            mw.start_balance = Decimal(0)
            mw.start_time = datetime.datetime(2020, 1, 1)
            mw.args = type('Args', (), {'quiet': True})()
            mw.network_thread = type('NT', (), {'local_peer': node.lp})()
            mw.public_key = mw.wallet.get_annotated_public_key("reserved for potentially mined block")
            fc = refmodel.ForkChoice()
            fc.add(uni.root)
            by_id = {uni.root.bid: uni.root}
            trace = []
            req = None

            def check(what):
                d_ = compare(node.cm.coinstate, fc, {m.bid: m for m in fc.order})
                if d_:
                    out.append((d_[0], d_[1] + " (node level: blocks relayed by a peer, the node's own miner asks for work after "
                                "arrival %d and finds its block after arrival %d; events so far: %s)" % (i, j, ', '.join(trace)), hist,
                                ['miner', i, j]))
                    return False
                return True
            ok = True
            for pos in range(L + 1):
                if pos == i:
                    try:
                        mw.handle_request_scrypt_input_message(0, 5)
                        summary, height = mw.send_queues[0].items[-1][1]
                        s0, h0, t0 = mw.mining_args[0]
                        req = (BlockSummary.deserialize(summary.serialize()), height, list(t0), node.cm.coinstate)
                        trace.append('work request')
                    except Exception as e:
                        out.append(('miner-raises', "work request raises %r" % (e,), hist, ['miner', i, j]))
                        ok = False
                if ok and pos == j and req is not None:
                    summary, height, txs, served = req
                    sh = consensus.construct_summary_hash(summary, height)
                    ev = consensus.construct_pow_evidence_after_scrypt(sh, served, summary, height, txs)
                    blk = Block(BlockHeader(summary, ev), txs)
                    try:
                        mw.handle_scrypt_output_message(0, sh)
                    except Exception as e:
                        out.append(('miner-raises', "found-block handler raises %r" % (e,), hist, ['miner', i, j]))
                        ok = False
                    node.flush()
                    D.received()
                    par = by_id.get(summary.previous_block_hash)
                    if ok and par is not None and blk.hash() < blk.target and not refmodel.validate_block(blk, par, int(net.clock())):
                        M = world.Node(blk, par, path=par.path + ('mined',), check_apply=False)
                        by_id[M.bid] = M
                        fc.add(M)
                        trace.append('own block found on %s' % ('/'.join(map(str, par.path)) or 'root'))
                        n += 1
                        ok = check('found')
                if not ok or pos == L:
                    break
                nd = uni.get(hist[pos])
                D.send(DataMessage(DATA_BLOCK, world.from_wire(nd.block)))
                D.received()
                by_id[nd.bid] = nd
                fc.add(nd)
                trace.append('/'.join(map(str, nd.path)))
                n += 1
                ok = check('arrival')
                if not ok:
                    break
            if net.escaped:
                out.append(('node-exception', "node handler: %s" % (net.escaped[0],), hist, ['miner', i, j]))
            if len(out) > 5:
                return n, out
    return n, out


def prefixes(uni, k):
    """all parent-choice sequences of length k (as histories)"""
    res = [()]
    for _ in range(k):
        nxt = []
        for hist in res:
            nch = {}
            for p in hist:
                nch[p[:-1]] = nch.get(p[:-1], 0) + 1
            for par in [()] + list(hist):
                nxt.append(hist + (par + (nch.get(par, 0),),))
        res = nxt
    return res


def run(ctx):
    ledger.setup()
    uni = make_universe()
    n = 8 if ctx.quick else 10
    nv = 7 if ctx.quick else 9          # also through the unvalidated entry point (reload path)
    jobs = [(p, n, True) for p in prefixes(uni, 4)] + [(p, nv, False) for p in prefixes(uni, 3)]
    # the same enumeration on a universe whose competing branches carry DIFFERENT targets (retarget period rebound to 2)
    nt = 6 if ctx.quick else 8
    jobs += [(p, nt, True, True) for p in prefixes(uni, 3)]
    if ctx.seed:
        import random
        random.Random(ctx.seed).shuffle(jobs)
    res = ctx.pmap(_worker, jobs)
    tot = {}
    # long lopsided trees: a tip left 10, 100, ... heights behind must stay a reported tip
    N = 130 if ctx.quick else 400
    lh = lopsided_histories(N)
    lres = ctx.pmap(_lopsided_worker, [(h, v) for h in lh for v in (True, False)])
    tot['lopsided_arrivals'] = sum(r[0] for r in lres)
    for cnt, bad in lres:
        if bad:
            res.append(({}, [bad]))
    nh = prefixes(uni, 5)
    nres = ctx.pmap(_node_worker, [(nh[i::8], irt) for irt in (0, 77, 'noise') for i in range(8)])
    mh = prefixes(uni, 4 if ctx.quick else 5)
    mres = ctx.pmap(_miner_node_worker, [mh[i::16] for i in range(16)])
    tot['node_level_arrivals_with_own_miner'] = sum(r[0] for r in mres)
    tot['node_level_arrivals'] = sum(r[0] for r in nres)
    nres = nres + mres
    for cnt, bad in nres:
        for b_ in bad:
            res.append(({}, [b_]))
    for st, out in res:
        for k, v in st.items():
            tot[k] = tot.get(k, 0) + v
        for item in out:
            kind, what, hist = item[:3]
            if len(item) > 3:
                ctx.violation('forkchoice-' + kind, "%s after arrivals %s" % (what, ledger.hist_str(hist)),
                              {'hist': [list(p) for p in hist], 'node_irt': item[3]})
                continue
            if kind == 'rejected':
                ctx.add('valid_blocks_refused')
                if len(ctx.notes) < 3:
                    ctx.notes.append("vacuity: %s after %s" % (what, ledger.hist_str(hist)))
                continue
            ctx.violation('forkchoice-' + kind, "%s after arrivals %s" % (what, ledger.hist_str(hist)),
                          {'hist': [list(p) for p in hist]})
    ctx.cov.update({
        'states': tot['states'] + 1, 'transitions': tot['transitions'],
        'traces_validated_against_impl': tot['transitions'],
        'samples': [ledger.hist_str(prefixes(uni, 4)[7]), ledger.hist_str(prefixes(uni, 4)[23])],
        'complete_sequences': tot['complete'], 'exhaustive': True, 'lopsided_tree_arrivals': tot['lopsided_arrivals'],
        'node_level_arrivals': tot['node_level_arrivals'], 'node_level_arrivals_with_own_miner': tot['node_level_arrivals_with_own_miner'],
        'lopsided_trees': {'chain_length': N, 'histories': len(lh)},
        'bounds': {'blocks_validated_path': n, 'blocks_unvalidated_path': nv},
        'ties_where_later_arrival_has_smaller_id': tot['tie_later_smaller'],
        'ties_where_later_arrival_has_larger_id': tot['tie_later_larger'], 'reorganisations': tot['reorgs'],
        'rule': "all n! parent-choice sequences (no de-duplication; prefixes shared); every arrival is one lock-step "
                "comparison implementation vs reference fork choice; plus %d histories of one %d-block chain with a stale tip / "
                "2-block branch left behind at height 1, 2 or 5 (arriving first, early or late), both entry points; and all 120 sequences "
                "of 5 blocks delivered by a peer to a real node, as relays, as answers to a request, and as relays each followed by a block that fails full validation" % (len(lh), N),
    })
    seams_note = "third job family: retarget period rebound to 2 so that targets differ between competing branches"
    ctx.assumptions.append(seams_note)
    ctx.assumptions.append("total work is height in this version (Block.get_total_work); the reference says so too")
    ctx.assumptions.append("every arrival is a new block (re-adding a stored block through the CoinState API is not an "
                           "event; the node filters duplicates before the call - C09)")


def replay(data, ctx):
    from .. import seams
    ledger.setup()
    now = world.T0 + 10**6
    hist = [tuple(p) for p in data['hist']]
    out = []
    if 'node_irt' in data and isinstance(data['node_irt'], list):
        n, bad = _miner_node_worker([tuple(hist)])
        return [('forkchoice-' + b[0], b[1]) for b in bad if b[3] == data['node_irt']]
    if 'node_irt' in data:
        n, bad = _node_worker(([tuple(hist)], data['node_irt']))
        return [('forkchoice-' + b[0], b[1]) for b in bad]
    for validated, varied in ((True, False), (False, False), (True, True)):
        seams.retarget_period(2, 240) if varied else seams.retarget_period(10080, 1209600)
        uni = make_universe(varied)
        from skepticoin.coinstate import CoinState
        cs = CoinState.empty().add_block_no_validation(uni.root.block)
        fc = refmodel.ForkChoice()
        fc.add(uni.root)
        for p in hist:
            node = uni.get(p)
            if node is None:
                break
            try:
                cs = cs.add_block(node.block, now) if validated else cs.add_block_no_validation(node.block)
            except Exception:
                break
            fc.add(node)
            d = compare(cs, fc, {m.bid: m for m in fc.order})
            if d:
                out.append(('forkchoice-' + d[0], d[1]))
                break
    return out
