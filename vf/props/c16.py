"""C16 - monetary schedule: exhaustive enumeration of every height with a non-zero subsidy (plus one
whole zero era), every era boundary up to the largest encodable height, and the documented figures."""
import os
import re

from .. import enc

LEVEL = 'exploration'

INTERVAL = 1_050_000
INITIAL = 1_000_000_000
MAXS = 2_099_999_986_350_000
LAST = 31 * INTERVAL + INTERVAL   # 30 halvings exhaust 10^9 (2^30 > 10^9); enumerate one era beyond


def ref(h):
    e = h // INTERVAL
    return (INITIAL >> e) if e < 64 else 0


def _chunk(rng):
    from skepticoin.consensus import get_block_subsidy
    lo, hi = rng
    total = 0
    bad = []
    prev = get_block_subsidy(lo - 1) if lo > 0 else None
    seen_zero = prev == 0
    distinct = set()
    for h in range(lo, hi):
        v = get_block_subsidy(h)
        e = h // INTERVAL
        exp = (INITIAL >> e)
        if v != exp or type(v) is not int:
            if len(bad) < 5:
                bad.append((h, repr(v), exp, 'value'))
        elif prev is not None and v > prev:
            if len(bad) < 5:
                bad.append((h, v, prev, 'increase'))
        if seen_zero and v != 0 and len(bad) < 5:
            bad.append((h, v, 0, 'nonzero-after-zero'))
        if v == 0:
            seen_zero = True
        distinct.add(v)
        total += v
        prev = v
    return total, bad, len(distinct), hi - lo


def _desc_chunk(rng):
    """the same heights in descending order (a subsidy that depends on the previously asked height would differ)"""
    from skepticoin.consensus import get_block_subsidy
    lo, hi = rng
    bad = []
    total = 0
    for h in range(hi - 1, lo - 1, -1):
        v = get_block_subsidy(h)
        if v != (INITIAL >> (h // INTERVAL)) and len(bad) < 5:
            bad.append((h, repr(v), INITIAL >> (h // INTERVAL), 'descending'))
        total += v if isinstance(v, int) else 0
    return total, bad, hi - lo


def _pairs(_):
    """every ordered pair (and every ordered triple of era starts) of representative heights: the answer for the last
    one must not depend on what was asked before"""
    from skepticoin.consensus import get_block_subsidy
    reps = []
    for e in range(0, 34):
        reps += [e * INTERVAL, e * INTERVAL + 1, e * INTERVAL + INTERVAL - 1]
    reps += [63 * INTERVAL, 64 * INTERVAL, 65 * INTERVAL, 2**32 - 1]
    bad = []
    n = 0
    for a in reps:
        for b in reps:
            n += 1
            get_block_subsidy(a)
            v = get_block_subsidy(b)
            if v != ref(b) and len(bad) < 5:
                bad.append((a, b, repr(v), ref(b)))
    starts = [e * INTERVAL for e in range(0, 33)]
    for a in starts:
        for b in starts:
            for c in starts:
                n += 1
                get_block_subsidy(a)
                get_block_subsidy(b)
                v = get_block_subsidy(c)
                if v != ref(c) and len(bad) < 5:
                    bad.append(((a, b), c, repr(v), ref(c)))
    return n, bad


def run(ctx):
    import skepticoin.params as P
    import skepticoin.consensus as C
    step = 1_050_000 // 2
    chunks = [(lo, min(lo + step, LAST)) for lo in range(0, LAST, step)]
    if ctx.seed:
        import random
        random.Random(ctx.seed).shuffle(chunks)
    res = ctx.pmap(_chunk, chunks)
    total = sum(r[0] for r in res)
    evals = sum(r[3] for r in res)
    for r in res:
        for (h, v, exp, kind) in r[1]:
            ctx.violation('subsidy-%s' % kind, "get_block_subsidy(%d) = %s, schedule says %s" % (h, v, exp),
                          {'kind': 'height', 'h': h})
    dres = ctx.pmap(_desc_chunk, chunks)
    evals += sum(r[2] for r in dres)
    for r in dres:
        for (h, v, exp, kind) in r[1]:
            ctx.violation('subsidy-depends-on-call-history', "get_block_subsidy(%d) = %s when heights are asked in descending order, "
                          "schedule says %s" % (h, v, exp), {'kind': 'desc', 'h': h})
    npairs, pbad = ctx.pmap(_pairs, [0, 1])[0]
    evals += npairs
    for a, b, v, exp in pbad:
        ctx.violation('subsidy-depends-on-call-history', "get_block_subsidy(%s) = %s right after asking for %s; schedule says %s" % (
            b, v, a, exp), {'kind': 'pair', 'a': a if isinstance(a, int) else list(a), 'b': b})
    if total != MAXS:
        ctx.violation('sum', "sum of subsidies over all heights = %d, documented maximum %d" % (total, MAXS),
                      {'kind': 'sum'})
    # era boundaries up to the largest encodable reward height, and beyond
    nb = 0
    hs = []
    for b in range(0, (2**32 - 1) // INTERVAL + 2):
        for d in (-1, 0, 1):
            h = b * INTERVAL + d
            if h >= 0:
                hs.append(h)
    hs += [2**32 - 1, 2**32, 64 * INTERVAL - 1, 64 * INTERVAL, 2**63, 2**64, 2**64 + INTERVAL * 65]
    prev = None
    for h in sorted(set(hs)):
        nb += 1
        try:
            v = C.get_block_subsidy(h)
        except Exception as e:
            v = 'raise %r' % (e,)
        if v != ref(h) or type(v) is not int:
            ctx.violation('subsidy-boundary', "get_block_subsidy(%d) = %s, schedule says %s" % (h, v, ref(h)),
                          {'kind': 'height', 'h': h})
        elif prev is not None and v > prev:
            ctx.violation('subsidy-increase', "subsidy rises at %d" % h, {'kind': 'height', 'h': h})
        prev = v if isinstance(v, int) else prev
    for key, what in _constants(P, C):
        ctx.violation(key, what, {'kind': 'const', 'key': key})
    nv, vbad = validator_boundaries()
    evals += nv
    for key, what, h in vbad:
        ctx.violation(key, what, {'kind': 'validator'})
    (nr, rbad), = ctx.pmap(_reward_bound_worker, [0, 1])[:1]
    evals += nr
    ctx.cov['reward_bound_offers_on_ledger_states'] = nr
    for key, what in rbad:
        ctx.violation(key, what, {'kind': 'reward-context'})
    (nn, nbad), = ctx.pmap(_node_reward_worker, [0, 1])[:1]
    evals += nn
    ctx.cov['reward_bound_offers_to_a_node_with_pending_fees'] = nn
    for key, what in nbad:
        ctx.violation(key, what, {'kind': 'reward-node'})
    na, abad = validator_amount_limits()
    evals += na
    for key, what in abad:
        ctx.violation(key, what, {'kind': 'amounts'})
    ctx.cov.update({
        'evaluations': evals + nb + 12, 'amount_lists_offered_to_the_validator': na,
        'distinct_nontrivial': sum(r[2] for r in res),
        'rule': "every height 0..%d individually (all %d heights with non-zero subsidy + one zero era), every era "
                "boundary b*1,050,000+{-1,0,1} for b up to %d, 2^32-1, 2^63, 2^64; the same heights once more in descending order; "
                "every ordered pair of 106 representative heights and every ordered triple of the 33 era starts (the answer must "
                "not depend on earlier calls); distinct_nontrivial = number of "
                "(chunk, subsidy value) pairs observed" % (LAST - 1, 30 * INTERVAL, (2**32 - 1) // INTERVAL + 1),
        'samples': [{'h': h, 'subsidy': ref(h)} for h in (0, INTERVAL - 1, INTERVAL, 29 * INTERVAL, 30 * INTERVAL)],
        'exhaustive': True, 'heights_enumerated': evals, 'boundaries': nb, 'sum_observed': total,
    })


def validator_boundaries():
    """the reward bound enforced by block validation follows the schedule at the REAL era boundaries: on a (fabricated,
    unvalidated) parent at height b-1 / b / b+1 a reward of exactly subsidy(height) passes and one unit more is refused"""
    from skepticoin import consensus as C
    from skepticoin.coinstate import CoinState
    from skepticoin.datatypes import Block, BlockHeader, BlockSummary, PowEvidence, Transaction, Input, Output, OutputReference
    from skepticoin.signing import CoinbaseData, SECP256k1PublicKey
    from skepticoin.genesis import genesis_block_data
    pk = SECP256k1PublicKey(b'\x07' * 64)
    gen = Block.deserialize(genesis_block_data)
    bad = []
    n = 0

    def blk(height, prev, value, wire=False, ts=None):
        values = value if isinstance(value, (list, tuple)) else [value]
        cb = Transaction([Input(OutputReference(b'\x00' * 32, 0), CoinbaseData(height, b''))], [Output(v, pk) for v in values])
        if wire:
            # as a peer would deliver it: encoded by the check's own encoder, decoded by the implementation
            cb = Transaction.deserialize(enc.enc_tx(cb))
        s = BlockSummary(height, prev, cb.hash(), (1_700_000_000 + height % 1000) if ts is None else ts, b'\xff' * 32, 0)
        return Block(BlockHeader(s, PowEvidence(b'\x01' * 32, b'\x02' * 32, b'\x03' * 32)), [cb])
    zero = CoinState.zero()
    for e in list(range(1, 32)) + [63, 64, 65]:
        for d in (-1, 0, 1):
            h = e * INTERVAL + d
            if h - 1 > 2**32 - 1:
                continue
            parent = blk(h - 1, gen.hash(), 1)
            cs = zero.add_block_no_validation(parent)
            sub = ref(h)
            shapes = [(sub, True, 'subsidy(%d)' % h), (sub + 1, False, 'subsidy(%d)+1' % h)]
            if d == 0 and sub >= 4:
                # the same bound with the reward split over several outputs (equal values, unequal values)
                shapes += [([sub, sub], False, 'two outputs of subsidy(%d) each' % h),
                           ([sub // 2, sub - sub // 2], True, 'subsidy(%d) split in two' % h),
                           ([sub // 2, sub // 2, sub // 2], False, 'three outputs of half the subsidy'),
                           ([1, 1, sub - 1], False, 'outputs 1, 1, subsidy-1'), ([1, 1, sub - 2], True, 'outputs 1, 1, subsidy-2'),
                           # amounts that only exist on the wire: a huge output offset by one that wraps when read as signed
                           ([4 * 10**18, 2**64 - (4 * 10**18 - sub)], False, 'wire amounts 4e18 and 2^64-(4e18-subsidy)'),
                           ([2**63, 2**63 + sub], False, 'wire amounts 2^63 and 2^63+subsidy'),
                           ([2**64 - 1, sub + 1], False, 'wire amounts 2^64-1 and subsidy+1')]
            if d == 0 and ref(h - 1) > sub:
                # a block at the first height of an era that REPORTS a height of the previous era (in its summary and in its
                # reward transaction) and claims that era's subsidy: the in-chain validators (summary + reward) must not both
                # pass it - else the subsidy "rises again" for whoever lies about the height
                for claimed in (h - 1, h - INTERVAL):
                    if claimed < 1:
                        continue
                    n += 1
                    cand = blk(claimed, parent.hash(), ref(claimed), ts=parent.header.summary.timestamp + 60)
                    passed = 0
                    for f in (lambda: C.validate_block_summary_in_coinstate(cand.header.summary, cs),
                              lambda: C.validate_coinbase_transaction_in_coinstate(cand.transactions[0], cand, cs)):
                        try:
                            f()
                            passed += 1
                        except Exception:
                            pass
                    if passed == 2 and len(bad) < 6:
                        bad.append(('validator-reward-bound', "a block at chain position %d reporting height %d and paying itself "
                                    "subsidy(%d) = %d (position's subsidy: %d) passes the in-chain summary and reward validators" % (
                                        h, claimed, claimed, ref(claimed), sub), h))
            for value, expect_ok, label in shapes:
                n += 1
                try:
                    cand = blk(h, parent.hash(), value, wire=isinstance(value, list) and max(value) >= 2**63)
                    C.validate_coinbase_transaction_in_coinstate(cand.transactions[0], cand, cs)
                    ok = True
                except Exception:
                    ok = False
                if ok != expect_ok and len(bad) < 6:
                    bad.append(('validator-reward-bound', "at height %d a reward of %s (total %d, subsidy %d) is %s by the validator" % (
                        h, label, sum(value) if isinstance(value, list) else value, sub, 'accepted' if ok else 'refused'), h))
    return n, bad


def _reward_bound_worker(_):
    """the reward bound in context: on a few real ledger states (incl. a chain crossing two halvings under the interval seam)
    every reward / fee candidate of the C02 alphabet - sequences included - is offered to full validation; a block whose
    reward exceeds subsidy(height) + its own fees must never be accepted"""
    from . import c01, c02
    from .. import blockcheck, ledger
    ledger.setup()
    out = []
    n = 0
    for kind in ('easy', 'easy-halving3'):
        uni = c02.universe_for(kind)
        hists = [(('f',), ('f', 's')), (('f',), ('f', 's'), ('f', 's', 'a')), (('f',), ('f', 's'), ('f', 's', 'e'), ('f', 's', 'e', 'e'))]
        st, bad, hs = blockcheck.run_histories(c02.cfg(), uni, [h for h in hists if all(uni.get(p) is not None for p in h)],
                                               c01.now_for('easy'))
        n += st.get('transitions', 0)
        for key, what, hist, ppath, cname in bad:
            if 'reward_too_large' in what or key == 'conservation':
                out.append(('validator-reward-bound', what + " [%s universe]" % kind))
    c02.universe_for('easy')
    return n, out[:4]


def _node_reward_worker(_):
    """the reward bound on a running node: fee-paying transactions are pending in the node's pool (admitted through the
    network handler / the local entry point, some of them refused) when a peer relays a block on the head that does NOT
    contain them; its reward may be subsidy(height) and not a unit more, however much the pending transactions would pay"""
    from . import c13
    from .. import ledger, refmodel, world
    from ..world import K
    from skepticoin.networking.messages import DataMessage, DATA_BLOCK, DATA_TRANSACTION
    out = []
    n = 0
    c13.setup_worker()
    for entry in ('local', 'network'):
        for extra in (0, 1, 'fee', 'fees-of-both'):
            w = c13.World()
            H = w.head()
            ta = ledger.tx_payload(H, 'a')[0][0]          # fee 1000
            tc = ledger.tx_payload(H, 'c')[0][0]          # fee 3
            for t in (ta, tc):
                if entry == 'local':
                    w.node.cm.add_transaction_to_pool(t)
                else:
                    w.peer().send(DataMessage(DATA_TRANSACTION, t))
            if len(w.pool()) != 2:
                out.append(('harness', 'fee-paying transactions not admitted'))
                continue
            sub = refmodel.subsidy(H.height + 1)
            claim = sub + {0: 0, 1: 1, 'fee': 1000, 'fees-of-both': 1003}[extra]
            blk = world.assemble(H, [], K[5], H.ts + 120, cb_outs=[(claim, K[5])], cb_data=b'claims pending fees')
            w.net.clock.t = max(w.net.clock.t, H.ts + 200)
            before = w.node.cm.coinstate.current_chain_hash
            w.peer().send(DataMessage(DATA_BLOCK, world.from_wire(blk)))
            n += 1
            accepted = refmodel.enc.blockid(blk) in w.node.cm.coinstate.block_by_hash
            if accepted != (extra == 0):
                out.append(('validator-reward-bound', "a node with two fee-paying transactions (fees 1000 and 3) pending (%s entry point) "
                            "is relayed an EMPTY block on its head whose reward is subsidy + %d: %s" % (
                                entry, claim - sub, 'accepted' if accepted else 'refused')))
    return n, out[:4]


def validator_amount_limits():
    """the maximum supply is the upper limit the validator places on ANY amount: every output list of length 1..4 over a
    boundary alphabet (and a few longer ones) is offered to the stand-alone transaction validator; it must be accepted
    exactly when every output is in (0, MAX] and the total is in (0, MAX]"""
    import itertools
    from skepticoin import consensus as C
    from skepticoin.datatypes import Transaction, Input, Output, OutputReference
    from skepticoin.signing import SECP256k1PublicKey, SECP256k1Signature
    pk = SECP256k1PublicKey(b'\x07' * 64)
    inp = [Input(OutputReference(b'\x11' * 32, 0), SECP256k1Signature(b'\x05' * 64))]
    alpha = [0, 1, 2, MAXS // 3, MAXS // 3 + 1, MAXS // 2, MAXS // 2 + 1, MAXS - 1, MAXS, MAXS + 1]
    lists = [lst for n in (1, 2, 3, 4) for lst in itertools.product(alpha, repeat=n)]
    lists += [(MAXS // 5 + 1,) * 5, (MAXS // 5,) * 5, (MAXS // 1000 + 1,) * 1000, (MAXS // 1000,) * 1000,
              (1,) * 7 + (MAXS - 7,), (1,) * 7 + (MAXS - 6,), (MAXS // 2, 1, MAXS // 2, 1, 1)]
    bad = []
    for lst in lists:
        want = all(0 < v <= MAXS for v in lst) and 0 < sum(lst) <= MAXS
        try:
            C.validate_non_coinbase_transaction_by_itself(Transaction(list(inp), [Output(v, pk) for v in lst]))
            got = True
        except Exception:
            got = False
        if got != want and len(bad) < 6:
            shown = list(lst) if len(lst) <= 8 else '%d x %d' % (len(lst), lst[0])
            bad.append(('validator-amount-limit', "a transaction with outputs %s (total %d, limit %d) is %s by the validator" % (
                shown, sum(lst), MAXS, 'accepted' if got else 'refused')))
    # the same limit for amounts that arrive INSIDE A BLOCK (second / third transaction of a block handed to the block-level
    # stand-alone validator, built in memory and as decoded from the wire): a block is acceptable only if every ordinary
    # transaction in it keeps every output and the output total in (0, MAX]
    from skepticoin.datatypes import Block, BlockHeader, BlockSummary, PowEvidence
    from skepticoin.signing import CoinbaseData
    cb = Transaction([Input(OutputReference(b'\x00' * 32, 0), CoinbaseData(7, b''))], [Output(5, pk)])
    filler = Transaction([Input(OutputReference(b'\x22' * 32, 1), SECP256k1Signature(b'\x06' * 64))], [Output(3, pk)])

    def in_block(txs, wire):
        txs = [cb] + txs
        s = BlockSummary(7, b'\x33' * 32, C.calc_merkle_root_hash(txs), 1_700_000_000, b'\xff' * 32, 0)
        b = Block(BlockHeader(s, PowEvidence(b'\x01' * 32, b'\x02' * 32, b'\x03' * 32)), txs)
        if wire:
            b = Block.deserialize(enc.enc_block(b) if hasattr(enc, 'enc_block') else b.serialize())
        try:
            C.validate_block_by_itself(b, 1_700_000_100)
            return True
        except Exception:
            return False
    nblk = 0
    if in_block([filler], False) and in_block([filler], True):
        blists = [lst for lst in lists if len(lst) <= 3 or len(lst) > 4]
        for lst in blists:
            want = all(0 < v <= MAXS for v in lst) and 0 < sum(lst) <= MAXS
            t = Transaction(list(inp), [Output(v, pk) for v in lst])
            for pos, txs in (('second', [t]), ('third', [filler, t])):
                for wire in (False, True):
                    if wire and (len(lst) > 2 or pos == 'third'):
                        continue
                    nblk += 1
                    got = in_block(txs, wire)
                    if got != want and len(bad) < 8:
                        shown = list(lst) if len(lst) <= 8 else '%d x %d' % (len(lst), lst[0])
                        bad.append(('validator-amount-limit-in-block', "a block whose %s transaction has outputs %s (total %d, limit %d) "
                                    "is %s by the stand-alone block validator (%s)" % (
                                        pos, shown, sum(lst), MAXS, 'accepted' if got else 'refused', 'decoded from the wire' if wire else 'built in memory')))
    return len(lists) + nblk, bad


def _constants(P, C):
    out = []

    def chk(key, cond, what):
        if not cond:
            out.append((key, what))
    chk('const-sashimi', P.SASHIMI_PER_COIN == 100_000_000, "SASHIMI_PER_COIN = %r" % (P.SASHIMI_PER_COIN,))
    chk('const-initial', P.INITIAL_SUBSIDY == 10 * 100_000_000 and C.INITIAL_SUBSIDY == P.INITIAL_SUBSIDY,
        "INITIAL_SUBSIDY is not 10 coin: %r" % (P.INITIAL_SUBSIDY,))
    chk('const-interval', P.SUBSIDY_HALVING_INTERVAL == INTERVAL and C.SUBSIDY_HALVING_INTERVAL == INTERVAL,
        "SUBSIDY_HALVING_INTERVAL = %r" % (P.SUBSIDY_HALVING_INTERVAL,))
    chk('const-max', P.MAX_SASHIMI == MAXS and C.MAX_SASHIMI == MAXS, "MAX_SASHIMI = %r" % (P.MAX_SASHIMI,))
    # the validator's upper limit on any amount
    for v, ok in ((0, False), (1, True), (MAXS, True), (MAXS + 1, False), (-1, False), (MAXS - 1, True)):
        try:
            C.validate_sashimi_range(v)
            got = True
        except Exception:
            got = False
        chk('range-%d' % v, got == ok, "validate_sashimi_range(%d) %s" % (v, "accepts" if got else "rejects"))
    # documented figures
    doc = open(os.path.join(os.environ.get('VERIF_REPO', '/repo'), 'docs', 'params.md')).read()

    def num(pat):
        m = re.search(pat, doc)
        return m.group(1).replace(',', '') if m else None
    chk('doc-subsidy', num(r"\* ([\d,]+) coin subsidy") == '10', "docs: subsidy figure is not 10 coin")
    chk('doc-interval', num(r"\* ([\d,]+) block halving interval") == str(INTERVAL), "docs: halving interval")
    chk('doc-max', num(r"\* ([\d,.]+) maximum total amount") == '20999999.86350000', "docs: maximum supply")
    chk('doc-retarget', num(r"every ([\d,]+) blocks the difficulty") == str(P.BLOCKS_BETWEEN_TARGET_READJUSTMENT)
        == '10080', "docs: retarget interval")
    chk('doc-blocktime', num(r"\* (\d+) minute blocks") == '2' and P.DESIRED_BLOCK_TIMESPAN == 120, "docs: block time")
    return out


def replay(data, ctx):
    import skepticoin.params as P
    import skepticoin.consensus as C
    out = []
    if data['kind'] == 'height':
        h = data['h']
        try:
            v = C.get_block_subsidy(h)
        except Exception as e:
            v = 'raise %r' % (e,)
        if v != ref(h) or type(v) is not int:
            k = 'subsidy-value' if h < LAST and h % INTERVAL not in (0, 1, INTERVAL - 1) else None
            out.append(('subsidy-value', "get_block_subsidy(%d) = %s != %s" % (h, v, ref(h))))
            out.append(('subsidy-boundary', "get_block_subsidy(%d) = %s != %s" % (h, v, ref(h))))
        if h > 0:
            try:
                if C.get_block_subsidy(h) > C.get_block_subsidy(h - 1):
                    out.append(('subsidy-increase', 'rises at %d' % h))
                    out.append(('subsidy-nonzero-after-zero', 'rises at %d' % h))
            except Exception:
                pass
    elif data['kind'] == 'validator':
        nv, vbad = validator_boundaries()
        out += [(k, w) for k, w, h in vbad]
    elif data['kind'] == 'reward-context':
        out += _reward_bound_worker(0)[1]
    elif data['kind'] == 'reward-node':
        out += _node_reward_worker(0)[1]
    elif data['kind'] == 'amounts':
        na, abad = validator_amount_limits()
        out += abad
    elif data['kind'] == 'pair':
        for a in (data['a'] if isinstance(data['a'], list) else [data['a']]):
            C.get_block_subsidy(a)
        if C.get_block_subsidy(data['b']) != ref(data['b']):
            out.append(('subsidy-depends-on-call-history', 'reproduced'))
    elif data['kind'] == 'desc':
        h = data['h']
        C.get_block_subsidy(min(h + INTERVAL, LAST))
        for x in range(min(h + 5, LAST), h - 1, -1):
            v = C.get_block_subsidy(x)
        if v != ref(h):
            out.append(('subsidy-depends-on-call-history', 'reproduced'))
    elif data['kind'] == 'sum':
        t = sum(C.get_block_subsidy(e * INTERVAL) * INTERVAL for e in range(0, 33))
        # era-wise product is only valid when the per-height enumeration found the function era-constant;
        # recompute exactly instead
        t = 0
        for lo in range(0, LAST, INTERVAL):
            t += sum(C.get_block_subsidy(h) for h in range(lo, lo + INTERVAL))
        if t != MAXS:
            out.append(('sum', 'sum = %d' % t))
    else:
        out = [(k, w) for k, w in _constants(P, C) if k == data['key']]
    return out
