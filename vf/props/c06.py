"""C06 - tamper evidence: every single-bit flip and every truncation of every block of a set, offered to
Block.deserialize and then to CoinState.add_block on the chain that holds the block's parent."""
import collections

from .. import enc, ledger, world

LEVEL = 'fault_enumeration'


def block_set(ctx, kind):
    """paths of the blocks to mutate, per universe kind"""
    uni = ledger.tx_universe(kind)
    pre = (('f',), ('f', 's'))
    paths = list(pre)
    labs = ('e', 'a', 'b', 'c', 'd', 'x', 'y')
    l1 = [pre[-1] + (l,) for l in labs]
    paths += l1
    if kind == 'easy':
        for p in l1[:5]:
            paths += [p + (l,) for l in (labs if not ctx.quick else ('a', 'd', 'c'))]
        if not ctx.quick:
            for p in list(paths):
                if len(p) == 4:
                    paths += [p + (l,) for l in ('a', 'c', 'd', 'e')]
        # heights on both sides of the VLQ width boundaries 64 and 128 (linear chain of empty blocks)
        lin = ()
        for i in range(1, 130):
            lin = lin + ('e',)
            if i in (62, 63, 64, 65, 127, 128, 129):
                paths.append(lin)
    else:
        if not ctx.quick:
            for p in l1[:4]:
                paths += [p + (l,) for l in ('a', 'c', 'd')]
    return [p for p in paths if uni.get(p) is not None]


def _worker(arg):
    from skepticoin.coinstate import CoinState
    from skepticoin.datatypes import Block
    kind, paths = arg[:2]
    shard = arg[2] if len(arg) > 2 else None       # (k, n, quick): byte positions i with i % n == k of a large block
    ledger.setup()
    if kind == 'easy-period4':
        # retarget period seam 4 (as in C05): the blocks at heights 4 and 8 are the first of a period - what is checked for a
        # block must not depend on which of the two target rules applies to it
        from .. import seams
        from . import c05
        seams.retarget_period(c05.SEAM_PERIOD, c05.SEAM_SPAN)
        uni = c05.make_universe()
    else:
        uni = ledger.tx_universe(kind)
    st = collections.Counter()
    bad = []
    rules = collections.Counter()
    for p in paths:
        node = uni.get(p)
        cs = CoinState.empty()
        for a in node.parent.chain():
            cs = cs.add_block_no_validation(a.block)
        # a second state: the same parent chain as a NON-active side branch next to a longer competing chain (what is checked
        # for a block must not depend on whether it extends the chain the node currently follows)
        cs_side = None
        if len(p) >= 2:
            try:
                cs_side = CoinState.empty().add_block_no_validation(uni.root.block)
                for k in range(1, len(p) + 2):
                    cs_side = cs_side.add_block_no_validation(uni.get(('x',) * k).block)
                for a in node.parent.chain()[1:]:
                    cs_side = cs_side.add_block_no_validation(a.block)
                if cs_side.current_chain_hash != uni.get(('x',) * (len(p) + 1)).bid:
                    cs_side = None
            except Exception:
                cs_side = None
        # a third state: the chain that already CONTAINS the genuine block (a node that has it sees the altered copy arrive)
        try:
            cs_has = cs.add_block_no_validation(node.block)
        except Exception:
            cs_has = None
        raw = node.block.serialize()
        if raw != node.ser:
            st['encoding_differs_from_reference'] += 1
        now = node.ts
        # control: the unaltered bytes are accepted
        try:
            cs.add_block(Block.deserialize(raw), now)
            st['controls_accepted'] += 1
        except Exception as e:
            # the implementation refuses the reference-assembled block: fall back to a block that is fully valid by
            # the implementation's own assembly, so the enumeration stays meaningful on a changed tree
            st['controls_rejected'] += 1
            raw = None
            try:
                from skepticoin import consensus
                cbin = node.block.transactions[0].inputs[0].signature
                for nonce in range(3000):
                    b = consensus.construct_block_for_mining(cs, list(node.block.transactions[1:]),
                                                             node.block.transactions[0].outputs[0].public_key, now,
                                                             cbin.signature, nonce)
                    if b.hash() < b.target:
                        cs.add_block(Block.deserialize(b.serialize()), now)
                        raw = b.serialize()
                        st['controls_own_assembly'] += 1
                        break
            except Exception:
                raw = None
            if raw is None:
                continue
        hdr_len = len(raw) - len(enc.enc_txlist(node.block.transactions))

        def offer(mut, desc, region):
            st['mutants'] += 1
            try:
                # the node has just seen the genuine block (decoded from its original bytes) when the altered copy arrives
                Block.deserialize(raw)
            except Exception:
                pass
            try:
                b = Block.deserialize(mut)
            except Exception as e:
                st['undecodable'] += 1
                rules[region + ':decode:' + type(e).__name__] += 1
                return
            st['decoded'] += 1
            second = ''
            if cs_has is not None:
                try:
                    cs_has.add_block(Block.deserialize(mut), now)
                    st['accepted'] += 1
                    if len(bad) < 5:
                        bad.append(('mutant-accepted-by-state-holding-the-genuine-block', "block %s (%d bytes): %s is accepted without "
                                    "complaint by a chain state that already holds the genuine block" % ('/'.join(map(str, p)), len(raw), desc), kind, p, desc))
                    return
                except Exception:
                    pass
            if cs_side is not None:
                try:
                    cs_side.add_block(Block.deserialize(mut), max(now, cs_side.head().timestamp))
                    st['accepted'] += 1
                    if len(bad) < 5:
                        bad.append(('mutant-accepted-on-side-branch', "block %s (%d bytes): %s gives another acceptable block when the "
                                    "block's chain is a side branch next to a longer active chain" % ('/'.join(map(str, p)), len(raw), desc), kind, p, desc))
                    return
                except Exception:
                    pass
            try:
                cs.add_block(b, now)
            except Exception as e:
                rules[region + ':' + type(e).__name__ + ':' + str(e)[:28]] += 1
                # a refusal must not depend on it being the first presentation: the same bytes, decoded afresh, again
                st['presented_twice'] += 1
                try:
                    b = Block.deserialize(mut)
                    cs.add_block(b, now)
                except Exception:
                    return
                second = ' when presented a second time (it was refused the first time)'
            st['accepted'] += 1
            if len(bad) < 5:
                same = b.hash() == enc.sha256d(raw[:hdr_len])
                bad.append(('mutant-accepted' + ('-on-second-presentation' if second else ''), "block %s (%d bytes): %s gives %s%s" % (
                    '/'.join(map(str, p)), len(raw), desc, "an acceptable block with the SAME id and different content" if same
                    else "another acceptable block", second), kind, p, desc))
        ba = bytearray(raw)
        positions = range(len(raw))
        if shard is not None:
            k_, n_, quick_ = shard
            positions = [i for i in range(len(raw)) if i % n_ == k_ and
                         (not quick_ or i < hdr_len + 420 or i >= len(raw) - 320)]
        for i in positions:
            region = 'header' if i < hdr_len else 'txs'
            for bit in range(8):
                ba[i] ^= (1 << bit)
                offer(bytes(ba), 'flip bit %d of byte %d' % (bit, i), region)
                ba[i] ^= (1 << bit)
        for cut in (positions if shard is not None else range(0, len(raw))):
            offer(raw[:cut], 'truncate to %d bytes' % cut, 'trunc')
        # the shipped configuration has a checkpoint horizon (163,000); here a scaled one: the horizon AT THE PARENT'S HEIGHT, so
        # this block is the first one above it and full validation is due exactly as before.  Every flip of the header region
        # (the fields only the in-chain checks look at: time, target, nonce, the three evidence fields) and of the first
        # bytes of the transaction list is offered again in that configuration.
        if shard is None and node.parent is not None and node.height >= 2:
            from skepticoin import consensus
            saved = consensus.MAX_KNOWN_HASH_HEIGHT
            consensus.MAX_KNOWN_HASH_HEIGHT = node.height - 1
            try:
                try:
                    cs.add_block(Block.deserialize(raw), now)
                    ok = True
                except Exception:
                    ok = False
                if ok:
                    st['horizon_controls_accepted'] += 1
                    for i in range(min(len(raw), hdr_len + 24)):
                        for bit in range(8):
                            ba[i] ^= (1 << bit)
                            st['mutants'] += 1
                            st['mutants_just_above_a_horizon'] += 1
                            try:
                                b = Block.deserialize(bytes(ba))
                                st['decoded'] += 1
                                cs.add_block(b, now)
                                st['accepted'] += 1
                                if len(bad) < 5:
                                    desc = 'flip bit %d of byte %d' % (bit, i)
                                    bad.append(('mutant-accepted-just-above-horizon', "block %s (%d bytes, height %d) with the checkpoint "
                                                "horizon at height %d: %s gives another acceptable block" % (
                                                    '/'.join(map(str, p)), len(raw), node.height, node.height - 1, desc), kind, p, desc))
                            except Exception:
                                pass
                            ba[i] ^= (1 << bit)
            finally:
                consensus.MAX_KNOWN_HASH_HEIGHT = saved
    return st, bad, rules


def run(ctx):
    ledger.setup()
    jobs = []
    nblocks = {}
    for kind in ('easy', 'genesis'):
        paths = block_set(ctx, kind)
        nblocks[kind] = len(paths)
        if ctx.seed:
            import random
            random.Random(ctx.seed).shuffle(paths)
        n = max(1, min(len(paths), ctx.ncpu * 2))
        jobs += [(kind, paths[i::n]) for i in range(n)]
    # one block with 64 transactions (two-octet transaction count), its byte positions spread over the workers; the quick tier
    # takes the header, the count, the first two transactions and the last one
    BIG = ('f', 's', 'F', 'm')
    if ledger.tx_universe('easy').get(BIG) is not None:
        nblocks['easy'] += 1
        jobs += [('easy', [BIG], (k, 16, ctx.quick)) for k in range(16)]
    # blocks on both sides of (and at) retarget boundaries under the period seam
    pp = []
    for dts in ((120,) * 9, (60, 60, 60, 60, 240, 240, 240, 240, 30)):
        p = ()
        for i, dt in enumerate(dts):
            p = p + (('e', dt),)
            if len(p) in (3, 4, 5, 8, 9) and (not ctx.quick or len(p) in (3, 4, 8)):
                pp.append(p)
    nblocks['easy-period4'] = len(pp)
    jobs += [('easy-period4', [p]) for p in pp]
    res = ctx.pmap(_worker, jobs)
    st = collections.Counter()
    rules = collections.Counter()
    for s, bad, r in res:
        st.update(s)
        rules.update(r)
        for key, what, kind, p, desc in bad:
            ctx.violation(key, what, {'uni': kind, 'path': list(p), 'desc': desc})
    ctx.cov.update({
        'evaluations': st['mutants'], 'distinct_nontrivial': st['decoded'],
        'rule': "every single-bit flip and every proper prefix of the encoding of %s blocks (easy-target universe, where the "
                "id-below-target rule never fires, and real-genesis universe); a mutant is non-trivial when it decodes and "
                "reaches full validation" % dict(nblocks),
        'samples': [{'universe': j[0], 'block': '/'.join(map(str, j[1][0])), 'mutations': ['flip bit 0 of byte 0', 'flip bit 1 of byte 0',
                                                                              '... every bit of every byte ...', 'truncate to 0 bytes',
                                                                              '... every proper prefix ...']} for j in jobs[:2]],
        'exhaustive': True, 'blocks': nblocks, 'controls_accepted': st['controls_accepted'],
        'controls_rejected': st['controls_rejected'], 'controls_own_assembly': st['controls_own_assembly'], 'undecodable': st['undecodable'], 'accepted': st['accepted'], 'mutants_just_above_a_horizon': st['mutants_just_above_a_horizon'],
        'rejecting_rule_histogram': dict(rules.most_common(40)),
        'vacuous': st['controls_accepted'] + st['controls_own_assembly'] == 0,
    })
    if st['controls_rejected']:
        ctx.notes.append("%d unaltered blocks were refused (vacuous for those)" % st['controls_rejected'])


def replay(data, ctx):
    path = tuple(tuple(x) if isinstance(x, list) else x for x in data['path'])
    st, bad, rules = _worker((data['uni'], [path]) + (((0, 1, False),) if len(data['path']) == 4 and data['path'][-1] == 'm' else ()))
    return [(k, w) for k, w, _, _, _ in bad]
