"""C19 - peer book stays consistent and reconnects with bounded back-off; self-connections; peer file.
(1) BFS over network-manager event sequences on one real node (fake sockets, virtual clock, give-up seam = 3) with a
back-off monitor in lock-step; (2) is_time_to_connect for every k with the real constants; (3) peers.json after every
greeting incl. every crash snapshot of every rewrite, and a 130-peer run."""
import itertools
import json
import os
from ipaddress import IPv6Address

from .. import crashfs, ledger, seams, simnet

LEVEL = 'model_checking'
H1, H2 = '10.1.1.1', '10.2.2.2'
GIVEUP = 3
DELTAS = (0, 9, 10, 11, 20, 40, 1800)
BOOKS = {
    'empty': [],
    'one': [(H1, 1)],
    'two-hosts': [(H1, 1), (H2, 1)],
    'two-ports': [(H1, 1), (H1, 2)],
    # non-initial states: an address that has already failed 2 / 3 times in a row, last attempt 30 s ago
    'one-failed-twice': [(H1, 1, 2, 30)],
    'one-failed-thrice': [(H1, 1, 3, 30), (H2, 1, 0, None)],
    # (only as the base of a prefix state) an address the node has given up on: 4 > 3 consecutive failures
    'one-given-up': [(H1, 1, 4, 30)],
}
BASE_ONLY = {'one-given-up'}
# non-initial start states reached by a fixed event prefix (not counted in the depth bound)
PREFIX_EVENTS = {
    'two-greeted': ('two-hosts', [('tick', 0), ('establish', 0), ('establish', 1), ('hello', 0, 1, False), ('hello', 1, 1, False)]),
    'one-greeted-one-incoming': ('one', [('tick', 0), ('establish', 0), ('hello', 0, 1, False), ('incoming', H2, 7), ('hello', 1, 1, False)]),
    # a given-up address in the book while another peer (incoming, greeted) may announce it or greet from its host
    'given-up-one-incoming-greeted': ('one-given-up', [('incoming', H2, 7), ('hello', 0, 1, False)]),
}
ANNOUNCE = {
    'none': [],
    'h1:1': [(H1, 1)],
    'h1:2+h2:1': [(H1, 2), (H2, 1)],
    'v6': [('v6', 9)],
    'h1:1+mcast': [(H1, 1), ('224.0.0.1', 2)],      # (a multicast address: the kernel refuses the dial synchronously)
}
_W = {}
QUICK = [False]


def setup_worker():
    if _W and _W.get('pid') != os.getpid():
        # forked worker: private directory for peers.json
        d = os.path.join(_W['base'], 'c19-%d' % os.getpid())
        os.makedirs(d, exist_ok=True)
        os.chdir(d)
        _W['pid'] = os.getpid()
    if _W:
        return _W
    import skepticoin.networking.remote_peer as rp
    import skepticoin.networking.disk_interface as di
    from skepticoin.coinstate import CoinState
    ledger.setup(horizon=False, fast=False, memo=False)
    net = simnet.Net(seams.Clock(1000))
    net.install()
    seams.rebind(rp, 'MAX_CONNECTION_ATTEMPTS', GIVEUP)
    base = os.getcwd()
    d = os.path.join(base, 'c19-%d' % os.getpid())
    os.makedirs(d, exist_ok=True)
    os.chdir(d)
    rec = crashfs.Recorder(['peers.json', 'peers.json.new'])
    crashfs.install(di, rec)
    _W.update(net=net, cs=CoinState.zero(), rec=rec, pid=os.getpid(), base=base)
    return _W


class World:
    def __init__(self, book):
        prefix = []
        if book in PREFIX_EVENTS:
            book, prefix = PREFIX_EVENTS[book]
        self._init(book)
        for ev in prefix:
            self.apply(ev)

    def _init(self, book):
        from skepticoin.networking.disk_interface import DiskInterface
        from skepticoin.networking.remote_peer import load_peers_from_list
        W = setup_worker()
        net = W['net']
        for lst in (net.escaped, net.dialling, net.connections, net.nodes):
            lst.clear()
        net.listeners.clear()
        net.clock.t = 1000
        net._eph = 40000
        self.net = net
        self.rec = W['rec']
        for fn in ('peers.json', 'peers.json.new'):
            if os.path.exists(fn):
                os.remove(fn)
        self.node = simnet.SimNode(net, 'N', '10.0.0.1', W['cs'], disk=DiskInterface(), nonce=4711)
        # the peer book comes from where a restarted node gets it: peers.json, read by the real DiskInterface.load_peers
        # (strings decoded from JSON are equal to, but not the same objects as, the constants in the code)
        if BOOKS[book]:
            with open('peers.json', 'w') as f:
                json.dump([[e[0], e[1], 'OUTGOING', '2024-01-01T00:00:00Z'] for e in BOOKS[book]], f)
            import contextlib
            import io
            with contextlib.redirect_stdout(io.StringIO()):
                self.node.nm.disconnected_peers = self.node.disk.load_peers()
        else:
            self.node.nm.disconnected_peers = load_peers_from_list([])
        self.conns = []        # dicts: kind, key, sock (node side), remote (Remote or None), open
        self.ref = {}          # OUTGOING key -> dict(k, t_last, greeted)
        for e in BOOKS[book]:
            if len(e) > 2:
                dp = self.node.nm.disconnected_peers[(e[0], e[1], 'OUTGOING')]
                dp.ban_score = e[2]
                dp.last_connection_attempt = None if e[3] is None else 1000 - e[3]
                self.ref[(e[0], e[1], 'OUTGOING')] = {'k': e[2], 't_last': dp.last_connection_attempt}
        self.self_addrs = set()
        self.bad = []
        self.file_checks = 0
        self.snapshots = 0
        self.dials = []
        orig = self.node.lp.start_outgoing_connection

        def dial(dp, orig=orig):
            key = (dp.host, dp.port, dp.direction)
            T = int(self.net.clock())
            r = self.ref.setdefault(key, {'k': 0, 't_last': None})
            if r.get('unmonitored'):
                # the address was dialled from outside the manager's own retry loop ('redial'): its back-off is no longer
                # compared with the reference (the invariants still are)
                r = dict(r, k=0, t_last=None)
            if (dp.host, dp.port) in self.self_addrs:
                self.bad.append(('self-address-dialled-again', "address %s:%s, found to be the node itself, is dialled again" % key[:2]))
            if r['k'] > GIVEUP:
                self.bad.append(('dial-after-give-up', "address %s:%s dialled after %d consecutive attempts without a greeting "
                                 "(limit %d)" % (key[0], key[1], r['k'], GIVEUP)))
            if r['t_last'] is not None:
                need = min(10 * 2 ** r['k'], 1800)
                if T - r['t_last'] < need:
                    self.bad.append(('dial-too-early', "address %s:%s redialled %d s after the previous attempt; with %d consecutive "
                                     "failures the earliest is %d s" % (key[0], key[1], T - r['t_last'], r['k'], need)))
            r['t_last'] = T
            r['greeted'] = False
            self.dials.append((T, key))
            n0 = len(self.net.dialling)
            orig(dp)
            if len(self.net.dialling) > n0:
                self.conns.append({'kind': 'out', 'key': key, 'sock': self.net.dialling[-1], 'remote': None, 'open': True,
                                   'established': False})
            else:
                # connect() failed on the spot (unreachable network / multicast address)
                cp = self.node.nm.connected_peers.get(key)
                if cp is not None and cp.sock is not None and not cp.sock.closed:
                    # the node keeps the socket: its error state is reported by the selector later ('refuse' event)
                    self.conns.append({'kind': 'out', 'key': key, 'sock': cp.sock, 'remote': None, 'open': True,
                                       'established': False, 'syncfail': True})
                else:
                    # the node has given the attempt up already: it ended without a greeting
                    r['k'] += 1
        self.node.lp.start_outgoing_connection = dial
        self._orig_dial = orig
        self.redials = 0

    # ---- helpers
    def sync_conns(self):
        """notice connections the node has closed; update the back-off reference"""
        for c in self.conns:
            if c['open'] and (c['sock'].closed or c['sock'] not in self.node.lp.selector.get_map()):
                c['open'] = False
                if c['kind'] == 'out':
                    r = self.ref[c['key']]
                    if not r.get('greeted'):
                        r['k'] += 1

    def open_conns(self):
        return [c for c in self.conns if c['open']]

    def events(self):
        ev = [('tick', d) for d in DELTAS if not (QUICK[0] and d == 40)]      # (40 = 20 + 20 in the quick tier)
        oc = self.open_conns()
        if len(oc) < 3:
            for h in (H1, H2):
                for ep in (7, 8):
                    ev.append(('incoming', h, ep))
        for i, c in enumerate(self.conns):
            if not c['open']:
                continue
            if c['kind'] == 'out' and not c['established']:
                ev += [('refuse', i)] if c.get('syncfail') else [('establish', i), ('refuse', i)]
                continue
            for mp in (1, 2):
                for own in (False, True):
                    ev.append(('hello', i, mp, own))
            for a in ANNOUNCE:
                ev.append(('peers', i, a))
            ev += [('close', i), ('garbage', i), ('oserror', i)]
        if self.redials == 0:
            # a duplicate OUTGOING key: somebody other than the manager's retry loop (an operator, a script) dials an address
            # whose connection is still open (LocalPeer.start_outgoing_connection is the public way in)
            for i, c in enumerate(self.conns):
                if c['open'] and c['kind'] == 'out':
                    ev.append(('redial', i))
        return ev

    def apply(self, ev):
        from skepticoin.networking import messages as M
        node = self.node
        self.rec.reset()
        old_file = self.file_list()
        kind = ev[0]
        greeted_out = None
        if kind == 'tick':
            self.net.clock.t += ev[1]
            node.tick()
        elif kind == 'incoming':
            s = simnet.FakeSocket(self.net, None)
            s.local = (ev[1], ev[2])
            s.remote = node.lsock.local
            node.lsock.backlog.append(s)
            node.accept()
            r = simnet.Remote.__new__(simnet.Remote)
            r.net, r.node, r.msg_id, r.sock, r.node_sock = self.net, node, 0, s, s.peer
            self.conns.append({'kind': 'in', 'key': (ev[1], ev[2], 'INCOMING'), 'sock': s.peer, 'remote': r, 'open': True,
                               'established': True})
        elif kind == 'redial':
            from skepticoin.networking.remote_peer import DisconnectedRemotePeer
            c = self.conns[ev[1]]
            key = c['key']
            self.redials += 1
            cp = node.nm.connected_peers.get(key)
            dp = DisconnectedRemotePeer(key[0], key[1], key[2], cp.last_connection_attempt if cp is not None else None,
                                        cp.ban_score if cp is not None else 0)
            self.ref.setdefault(key, {'k': 0, 't_last': None})['unmonitored'] = True
            n0 = len(self.net.dialling)
            try:
                self._orig_dial(dp)
            except Exception as e:
                self.bad.append(('exception-escaped', "after %s: dialling an address whose connection is still open raises %r" % (ev, e)))
            if len(self.net.dialling) > n0:
                self.conns.append({'kind': 'out', 'key': key, 'sock': self.net.dialling[-1], 'remote': None, 'open': True,
                                   'established': False})
            if c['sock'].closed or c['sock'] not in node.lp.selector.get_map():
                c['open'] = None if c['open'] is None else False       # dropped as the duplicate: not an attempt that failed
        else:
            c = self.conns[ev[1]]
            if kind == 'establish':
                c['remote'] = simnet.Remote.for_dial(self.net, node, c['sock'], c['key'][0])
                c['established'] = True
                node.flush()
            elif kind == 'refuse':
                self.net.complete_dial(c['sock'])        # no listener: connection refused
                node.read_event(c['sock'])
            elif kind == 'hello':
                r = c['remote']
                nonce = node.lp.nonce if ev[3] else 31337
                r.send(M.HelloMessage([M.SupportedVersion(0)], IPv6Address('::ffff:10.0.0.1'), 0, IPv6Address(0), ev[2], nonce, b'vf'))
                if c['kind'] == 'out':
                    # the greeting was processed iff the connection was open when it arrived
                    self.ref[c['key']]['greeted'] = True
                    self.ref[c['key']]['k'] = 0
                    greeted_out = c
                    if ev[3]:
                        self.self_addrs.add(c['key'][:2])
                        if not c['sock'].closed:
                            self.bad.append(('self-connection-not-dropped', "outgoing connection greeted with the node's own nonce stays open"))
                        if c['key'][:2] not in node.nm.my_addresses:
                            self.bad.append(('self-address-not-recorded', "self-connection detected but the address is not recorded as own"))
            elif kind == 'peers':
                peers = []
                for h, p in ANNOUNCE[ev[2]]:
                    ip = IPv6Address('2001:db8::1') if h == 'v6' else IPv6Address('::ffff:%s' % h)
                    peers.append(M.Peer(0, ip, p))
                c['remote'].send(M.PeersMessage(peers))
            elif kind == 'close':
                c['remote'].close()
            elif kind == 'garbage':
                c['remote'].send_raw(b'XXXXjunkjunkjunk')
            elif kind == 'oserror':
                c['sock'].error = ConnectionResetError(104, 'Connection reset by peer')
                node.read_event(c['sock'])
        self.sync_conns()
        self.check_invariants(ev)
        self.check_file(ev, old_file, greeted_out)
        for c in self.conns:
            if c['remote'] is not None and not c['remote'].sock.closed:
                c['remote'].sock.rx.clear()

    def check_invariants(self, ev):
        nm = self.node.nm
        both = set(nm.connected_peers) & set(nm.disconnected_peers)
        if both:
            self.bad.append(('key-in-both-maps', "after %s: %s is recorded as connected and as waiting for reconnection" % (
                ev, sorted(both)[0])))
        if self.net.escaped:
            self.bad.append(('exception-escaped', "after %s: exception escaped %s: %s" % (ev, self.net.escaped[0][1], self.net.escaped[0][2])))
            self.net.escaped.clear()

    def file_list(self):
        try:
            with open('peers.json') as f:
                return [tuple(r[:3]) for r in json.load(f)]
        except FileNotFoundError:
            return None
        except Exception:
            return 'corrupt'

    def check_file(self, ev, old, greeted_out):
        new = self.file_list()
        if new == 'corrupt':
            self.bad.append(('peer-file-corrupt', "after %s peers.json cannot be parsed" % (ev,)))
            return
        if greeted_out is not None and greeted_out['open'] is not None:
            self.file_checks += 1
            k = greeted_out['key']
            exp = [k] + [r for r in (old or []) if r != k]
            exp = exp[:100]
            if new != exp:
                self.bad.append(('peer-file-content', "after a greeting from %s:%s peers.json is not [that peer] + previous entries "
                                 "(has %s entries, first %s)" % (k[0], k[1], len(new) if new else 0, new[0] if new else None)))
        if new is not None and (len(new) > 100 or len(set(new)) != len(new)):
            self.bad.append(('peer-file-content', "peers.json has %d entries, %d distinct" % (len(new), len(set(new)))))
        # crash snapshots of this rewrite
        for label, view in self.rec.snaps:
            self.snapshots += 1
            data = view.get('peers.json')
            if data is None:
                if old is not None:
                    self.bad.append(('peer-file-crash', "crash after %s: peers.json missing although it existed" % label))
                continue
            try:
                lst = [tuple(r[:3]) for r in json.loads(data.decode())]
            except Exception:
                self.bad.append(('peer-file-crash', "crash after %s: peers.json is not parseable (%d bytes)" % (label, len(data))))
                continue
            if lst != old and lst != new:
                self.bad.append(('peer-file-crash', "crash after %s: peers.json is neither the old nor the new list" % label))

    def canon(self):
        nm = self.node.nm
        T = int(self.net.clock())

        def rel(t):
            return None if t is None else min(T - t, 4000)
        con = tuple(sorted((k, p.hello_sent, p.hello_received, p.ban_score, rel(p.last_connection_attempt),
                            p.waiting_for_peers, rel(p.last_get_peers_sent_at)) for k, p in nm.connected_peers.items()))
        dis = tuple(sorted((k, p.ban_score, rel(p.last_connection_attempt)) for k, p in nm.disconnected_peers.items()))
        dl = tuple(sorted(c['key'] for c in self.conns if c['open'] and not c['established']))
        ref = tuple(sorted((k, r['k'], rel(r['t_last']), r.get('greeted', False), r.get('unmonitored', False)) for k, r in self.ref.items()))
        fl = self.file_list()
        return (con, dis, tuple(sorted(nm.my_addresses)), dl, ref, tuple(fl) if isinstance(fl, list) else fl,
                T % 60 == 0, self.redials)


def execute(book, trace):
    w = World(book)
    for ev in trace:
        if ev not in w.events():
            return None
        w.apply(ev)
    return w


def _expand(arg):
    book, trace = arg
    setup_worker()
    w = execute(book, trace)
    evs = w.events()
    out = []
    for ev in evs:
        w2 = execute(book, trace + (ev,))
        if w2 is None:
            continue
        nb = len(w2.bad)
        out.append((ev, w2.canon(), list(w2.bad), len(w2.dials), w2.file_checks, w2.snapshots))
    return book, trace, out


def backoff_table():
    """(2) is_time_to_connect, real constants, every k"""
    from skepticoin.networking.remote_peer import DisconnectedRemotePeer
    import skepticoin.networking.remote_peer as rp
    import skepticoin.networking.params as P
    bad = []
    n = 0
    # 10 s and 30 min are stated by the property; the give-up count is "configured": read it from the tree
    GU = rp.MAX_CONNECTION_ATTEMPTS           # (the value is_time_to_connect uses: 2880 unless the seam is installed)
    for k in range(0, GU + 3):
        thr = min(10 * 2 ** k, 1800)
        for last in (None, 5000):
            for el in (thr - 1, thr, thr + 1, 0, 10**9):
                n += 1
                p = DisconnectedRemotePeer('1.1.1.1', 1, 'OUTGOING', last, k)
                got = p.is_time_to_connect((last or 0) + el)
                exp = (k <= GU) and (last is None or el >= thr)
                if got != exp and len(bad) < 5:
                    bad.append(('backoff-formula', "is_time_to_connect with %d failures, %s s after the last attempt = %s" % (k, el, got),
                                (k, last, el)))
    return n, bad


def big_peer_file():
    """(3) 130 distinct outgoing peers greet one after another, then old ones greet again"""
    from skepticoin.networking import messages as M
    W = setup_worker()
    w = World('empty')
    node = w.node
    from skepticoin.networking.remote_peer import load_peers_from_list
    addrs = [('10.9.%d.%d' % (i // 200, i % 200 + 1), 100 + i) for i in range(130)]
    node.nm.disconnected_peers = load_peers_from_list([(h, p, 'OUTGOING') for h, p in addrs])
    w.net.clock.t += 1
    node.tick()
    w.check_invariants(('tick', 1))
    order = list(range(130)) + [3, 77, 129, 0]
    socks = {c['key']: (i, c) for i, c in enumerate(w.conns)}
    n = 0
    # the wall clock behind the time stamps in the file belongs to the harness: it runs forward 60 s per greeting, is stepped
    # back two hours after the 60th greeting (a clock correction) and again after the 120th
    import datetime as _dt
    import skepticoin.networking.disk_interface as di

    class _Now:
        t = _dt.datetime(2024, 1, 1, 12, 0, 0)

        @classmethod
        def utcnow(cls):
            return cls.t

        @classmethod
        def now(cls, *a):
            return cls.t

    class _DtShim:
        datetime = _Now

        def __getattr__(self, name):
            return getattr(_dt, name)
    if hasattr(di, 'datetime'):
        seams.rebind(di, 'datetime', _DtShim())
    for j in order:
        _Now.t = _dt.datetime(2024, 1, 1, 12, 0, 0) + _dt.timedelta(seconds=60 * n - (7200 if n >= 60 else 0) - (7200 if n >= 120 else 0))
        key = (addrs[j][0], addrs[j][1], 'OUTGOING')
        if key not in socks or not socks[key][1]['open']:
            continue          # the node did not dial / dropped it (an escaped exception is reported by the invariants)
        i, c = socks[key]
        if not c['established']:
            w.apply(('establish', i))
        w.apply(('hello', i, 1, False))
        n += 1
    return n, w.snapshots, [(k, what) for k, what in w.bad]


def run(ctx):
    nb, bad2 = backoff_table()
    for key, what, _ in bad2:
        ctx.violation(key, what, {'part': 2})
    setup_worker()
    QUICK[0] = ctx.quick
    depth = 5 if ctx.quick else 6
    seen = set()
    frontier = []
    for book in [b for b in BOOKS if b not in BASE_ONLY] + list(PREFIX_EVENTS):
        w = execute(book, ())
        seen.add((book, w.canon()))
        frontier.append((book, ()))
    stats = {'states': len(frontier), 'transitions': 0, 'dials': 0, 'file_checks': 0, 'snapshots': 0}
    kinds = {}
    sample = None
    pdepth = 3 if ctx.quick else 4          # depth bound for the start states reached by an event prefix
    for d in range(depth):
        if d >= pdepth:
            frontier = [f for f in frontier if f[0] not in PREFIX_EVENTS]
        if ctx.quick and d >= depth - 1:
            # quick tier: the last level only from three of the six initial books
            frontier = [f for f in frontier if f[0] in ('empty', 'one', 'one-failed-thrice')]
        if ctx.seed:
            import random
            random.Random(ctx.seed + d).shuffle(frontier)
        res = ctx.pmap(_expand, frontier, chunksize=max(1, len(frontier) // (ctx.ncpu * 8)))
        nxt = []
        for book, trace, out in sorted(res, key=lambda r: (r[0], repr(r[1]))):
            for ev, key, bad, ndials, fchecks, snaps in out:
                stats['transitions'] += 1
                kinds[ev[0]] = kinds.get(ev[0], 0) + 1
                for k, what in bad:
                    ctx.violation(k, "%s; initial peer book '%s', events %s" % (what, book, list(trace + (ev,))),
                                  {'part': 1, 'book': book, 'trace': [list(e) for e in trace + (ev,)]})
                if bad:
                    continue
                if (book, key) not in seen:
                    seen.add((book, key))
                    stats['states'] += 1
                    stats['dials'] += ndials
                    stats['file_checks'] += fchecks
                    stats['snapshots'] += snaps
                    nxt.append((book, trace + (ev,)))
                    sample = [book] + [list(e) for e in trace + (ev,)]
        frontier = nxt
        ctx.log("depth", d + 1, "new states", len(nxt))
    n3, snaps3, bad3 = big_peer_file()
    for key, what in bad3:
        ctx.violation(key, what + "; 130-peer run", {'part': 3})
    ctx.cov.update({
        'states': stats['states'], 'transitions': stats['transitions'] + nb + n3,
        'traces_validated_against_impl': stats['transitions'],
        'samples': [sample or []],
        'event_kinds': kinds, 'dials_monitored': stats['dials'], 'peer_file_checks': stats['file_checks'] + n3,
        'crash_snapshots_checked': stats['snapshots'] + snaps3, 'backoff_table_cases': nb, 'depth': depth, 'depth_from_prefix_states': pdepth, 'exhaustive': True,
        'rule': "BFS to depth %d from 4 initial peer books over events {tick(+0,9,10,11,20,40,1800 s), dial established/refused, "
                "incoming connection (2 hosts x 2 ephemeral ports, also duplicates), greeting (claimed port 1/2, own/other nonce, "
                "repeated), peers message (5 announcement sets incl. IPv6-only), remote close, garbage, OS error}, <= 3 open "
                "connections, give-up seam = %d; de-duplicated on the peer book with clock-relative times + back-off reference + "
                "peer file; every dial is checked against the back-off monitor" % (depth, GIVEUP),
    })
    ctx.assumptions.append("give-up count rebound to %d for the search; the real 2880 is covered by the exhaustive is_time_to_connect "
                           "table (every k in 0..2882)" % GIVEUP)


def replay(data, ctx):
    if data['part'] == 2:
        n, bad = backoff_table()
        return [(k, w) for k, w, _ in bad]
    setup_worker()
    if data['part'] == 3:
        n, s, bad = big_peer_file()
        return bad
    trace = tuple(tuple(e) for e in data['trace'])
    w = World(data['book'])
    for ev in trace:
        if ev not in w.events():
            return []
        w.apply(ev)
    return list(w.bad)
