"""C14 - wallet builds exact, valid, non-overlapping spends or changes nothing.
Worlds: every small distribution of unspent outputs over two wallet keys (real chains).  Per world a BFS over
wallet states (record of used outputs x confirmed spends) with the full (amount, fee) alphabet at every state."""
import itertools

from .. import enc, ledger, refmodel, seams, world
from ..world import K

LEVEL = 'model_checking'
VALUES = (1, 2, 5)
COIN = 100_000_000


def distributions(maxtotal):
    ms = [()]
    for k in range(1, 4):
        ms += list(itertools.combinations_with_replacement(VALUES, k))
    out = []
    for a in ms:
        for b in ms:
            if 1 <= len(a) + len(b) <= maxtotal:
                out.append((a, b))
    return out


def make_world(dist, foreign, reward, order):
    """root (miner K4) -> block 1 with the funding transaction.  returns (uni root node, node1)"""
    a, b = dist
    root = world.easy_root(miner=K[4])
    src = world.owned(root.utxo, K[4])[0]
    outs = [(v, K[0]) for v in a] + [(v, K[1]) for v in b]
    if order == 'desc':
        outs = outs[::-1]
    if foreign:
        outs.insert(len(outs) // 2, (3, K[2]))
    rest = root.utxo[src][0] - sum(v for v, _ in outs)
    outs.append((rest, K[5]))
    ftx = world.mk_tx([(world.oref(src), K[4])], outs)
    b1 = world.assemble(root, [ftx], K[0] if reward else K[5], root.ts + 120)
    return root, world.Node(b1, root, path=('fund',))


def wallet_outputs(node):
    return {r: v for r, (v, pk) in node.utxo.items() if pk in (K[0].pub, K[1].pub)}


def attempt_alphabet(avail_total, reward):
    small = avail_total - (10 * COIN if reward and avail_total >= 10 * COIN else 0)
    amts = set(range(1, min(small, 12) + 2))
    if avail_total >= 10 * COIN:
        amts |= {10 * COIN - 1, 10 * COIN, 10 * COIN + 1, avail_total - 1, avail_total, avail_total + 1}
    amts |= {avail_total, avail_total + 1, max(1, avail_total - 1), max(1, avail_total - 2)}
    return [(a, f) for a in sorted(amts) if a >= 1 for f in (0, 1, 2)]


def wallet_fingerprint(w):
    """everything the wallet object carries (whatever attributes the implementation keeps on it), order-insensitive"""
    def norm(v):
        if isinstance(v, dict):
            return sorted((repr(k), norm(x)) for k, x in v.items())
        if isinstance(v, (set, frozenset)):
            return sorted(repr(x) for x in v)
        if isinstance(v, (list, tuple)):
            return [norm(x) for x in v]
        return repr(v)
    return repr(sorted((k, norm(v)) for k, v in vars(w).items() if k not in ('keypairs',)))


def annotations_for(ann):
    """ann: 0 = no key annotated, 1 / 2 = the second / first wallet key carries the annotation 'change' (as skepticoin-send
    leaves it behind), 3 = both"""
    return {0: {}, 1: {K[1].pub: 'change'}, 2: {K[0].pub: 'change'}, 3: {K[0].pub: 'change', K[1].pub: 'change'}}[ann or 0]


def check_attempt(cs, head, wallet_keys_order, spent_record, used, amount, fee, wallet=None, ann=0):
    """one call of the real create_spend_transaction on a Wallet object carrying `spent_record`: a fresh one, or (wallet=)
    a deep copy of the long-lived object the caller carries along its path (then whatever else the implementation keeps on
    the object is carried along too; the copy after the attempt is returned in check_attempt.last_wallet).
    returns (violations, tx or None, new spent record)"""
    import copy
    from skepticoin.wallet import Wallet, create_spend_transaction
    from skepticoin import consensus
    from skepticoin.datatypes import OutputReference
    if wallet is not None:
        w = copy.deepcopy(wallet)
    else:
        w = Wallet({k.pub: k.priv for k in wallet_keys_order}, [], dict(annotations_for(ann)))
        w.spent_transaction_outputs = {OutputReference(h, i) for (h, i) in spent_record}
    check_attempt.last_wallet = w
    before = set(spent_record)
    wouts = wallet_outputs(head)
    available = sum(v for r, v in wouts.items() if r not in used)
    viol = []
    try:
        tx = create_spend_transaction(w, cs, amount, fee, K[2].pk, K[1].pk)
    except Exception as e:
        after = {(r.hash, r.index) for r in w.spent_transaction_outputs}
        if after != before:
            viol.append(('failed-attempt-changes-record', "attempt (amount %d, fee %d) fails (%s) but the record of used outputs "
                         "grows by %d" % (amount, fee, str(e)[:40], len(after - before))))
        if available >= amount + fee:
            # a transaction must fit in a block: with the unused outputs taken largest first, do the inputs that fit
            # (101 bytes each next to the version byte, two counts and two 73-byte outputs) reach the amount at all?
            # If not, no wallet could build a valid transaction for this request and a refusal is the only right answer.
            from skepticoin.params import MAX_BLOCK_SIZE
            fit = (MAX_BLOCK_SIZE - (1 + 3 + 1 + 2 * 73)) // 101
            desc = sorted((v for r, v in wouts.items() if r not in used), reverse=True)
            best = sum(desc[:fit])
            fit1 = (MAX_BLOCK_SIZE - (1 + 3 + 1 + 73)) // 101          # without a change output one more input fits
            if sum(desc[:fit1]) == amount + fee:
                best = amount + fee
            if best >= amount + fee and 'too large' in str(e).lower():
                # a valid transaction exists (take the largest outputs first) but the wallet's own selection order needs more
                # inputs than fit in a block and it refuses: recorded defect, keyed apart from other refusals
                viol.append(('feasible-spend-refused-as-too-large', "attempt (amount %d, fee %d) is refused (%s) although a valid "
                             "transaction exists: the %d largest unused outputs sum to %d" % (amount, fee, str(e)[:44], fit, best)))
            elif best >= amount + fee:
                viol.append(('affordable-spend-fails', "attempt (amount %d, fee %d) fails (%s) although unused wallet outputs sum to %d"
                             % (amount, fee, str(e)[:40], available)))
            else:
                check_attempt.too_large = getattr(check_attempt, 'too_large', 0) + 1
        return viol, None, after
    after = {(r.hash, r.index) for r in w.spent_transaction_outputs}
    # validity: the node's validators and the reference validator
    try:
        consensus.validate_non_coinbase_transaction_by_itself(tx)
        consensus.validate_non_coinbase_transaction_in_coinstate(tx, cs.current_chain_hash, cs)
    except Exception as e:
        viol.append(('invalid-transaction', "returned transaction fails the node's validation: %r" % (e,)))
    tags = refmodel.validate_tx(tx, head.utxo)
    if tags:
        viol.append(('invalid-transaction', "returned transaction breaks %s" % sorted(tags)))
    ins = [(i.output_reference.hash, i.output_reference.index) for i in tx.inputs]
    if any(r not in wouts for r in ins):
        viol.append(('foreign-input', "an input is not an unspent output of a wallet key"))
        return viol, tx, after
    if len(set(ins)) != len(ins) or any(r in used for r in ins):
        viol.append(('reused-output', "an input was already used by an earlier spend of this wallet"))
    tin = sum(wouts[r] for r in ins)
    o = tx.outputs
    if not o or o[0].value != amount or o[0].public_key.public_key != K[2].pub:
        viol.append(('wrong-payment', "first output does not pay exactly %d to the recipient" % amount))
    change = tin - amount - fee
    if change < 0:
        viol.append(('wrong-change', "inputs %d do not cover amount %d + fee %d" % (tin, amount, fee)))
    elif change == 0:
        if len(o) != 1:
            viol.append(('wrong-change', "no change is due but there are %d outputs" % len(o)))
    else:
        if len(o) != 2 or o[1].value != change or o[1].public_key.public_key != K[1].pub:
            viol.append(('wrong-change', "change should be one output of %d to the change key" % change))
    if available < amount + fee:
        viol.append(('spend-beyond-unused', "a transaction was returned although unused wallet outputs sum to %d < %d" % (
            available, amount + fee)))
    return viol, tx, after


def explore_world(arg):
    dist, foreign, reward, order, korder, max_attempts, max_confirms = arg[:7]
    ann = arg[7] if len(arg) > 7 else 0
    from skepticoin.coinstate import CoinState
    ledger.setup()
    seams.deterministic_wallet_signing()
    root, n1 = make_world(dist, foreign, reward, order)
    cs0 = CoinState.empty().add_block_no_validation(root.block).add_block(n1.block, n1.ts)
    keys = [K[0], K[1]] if korder == 0 else [K[1], K[0]]
    # state: (node, coinstate, spent record (frozenset), used-by-successful (frozenset), depth, confirms, trace)
    start = (n1, cs0, frozenset(), frozenset(), 0, 0, ())
    seen = {(n1.bid, frozenset(), frozenset())}
    frontier = [start]
    stats = {'states': 1, 'transitions': 0, 'success': 0, 'insufficient': 0, 'confirmed': 0}
    bad = []
    while frontier:
        nxt = []
        for node, cs, rec, used, depth, confs, trace in frontier:
            if depth >= max_attempts:
                continue
            avail_total = sum(wallet_outputs(node).values())
            for amount, fee in attempt_alphabet(avail_total, reward):
                stats['transitions'] += 1
                viol, tx, after = check_attempt(cs, node, keys, rec, used, amount, fee, ann=ann)
                tr = trace + (('spend', amount, fee),)
                for key, what in viol:
                    if len(bad) < 8:
                        bad.append((key, what, tr))
                if tx is None:
                    stats['insufficient'] += 1
                    succ = [(node, cs, frozenset(after), used, depth + 1, confs, tr)]
                else:
                    stats['success'] += 1
                    ins = frozenset((i.output_reference.hash, i.output_reference.index) for i in tx.inputs)
                    succ = [(node, cs, frozenset(after), used | ins, depth + 1, confs, tr)]
                    if confs < max_confirms and not viol:
                        try:
                            b = world.assemble(node, [tx], K[5], node.ts + 120)
                            n2 = world.Node(b, node, path=node.path + ('c',))
                            cs2 = cs.add_block(b, n2.ts)
                            stats['confirmed'] += 1
                            succ.append((n2, cs2, frozenset(after), used | ins, depth + 1, confs + 1, tr + (('confirm',),)))
                        except Exception as e:
                            if len(bad) < 8:
                                bad.append(('unconfirmable', "returned transaction cannot be mined into a block: %r" % (e,), tr))
                for s in succ:
                    k = (s[0].bid, s[2], s[3])
                    if k not in seen:
                        seen.add(k)
                        stats['states'] += 1
                        nxt.append(s)
        frontier = nxt
    return stats, bad, arg


def deep_world(arg):
    """Longer histories with a reduced amount alphabet and *delayed* confirmations: operations are spend(amount, fee 0)
    for a few characteristic amounts and confirm(j) = mine the j-th still unconfirmed earlier spend into a block."""
    dist, order, korder, depth = arg
    from skepticoin.coinstate import CoinState
    ledger.setup()
    seams.deterministic_wallet_signing()
    root, n1 = make_world(dist, False, False, order)
    cs0 = CoinState.empty().add_block_no_validation(root.block).add_block(n1.block, n1.ts)
    keys = [K[0], K[1]] if korder == 0 else [K[1], K[0]]
    # node, coinstate, record, used, pending txs, trace, spends confirmed on the current branch
    from skepticoin.wallet import Wallet
    w0 = Wallet({k.pub: k.priv for k in keys}, [], {})
    start = (n1, cs0, frozenset(), frozenset(), (), (), (), w0)
    seen = {(n1.bid, frozenset(), frozenset(), (), wallet_fingerprint(w0))}
    frontier = [start]
    stats = {'states': 1, 'transitions': 0, 'success': 0, 'insufficient': 0, 'confirmed': 0, 'reorganisations': 0}
    bad = []
    for d in range(depth):
        nxt = []
        for node, cs, rec, used, pending, trace, conf, wal in frontier:
            wouts = wallet_outputs(node)
            vals = sorted(set(wouts.values()))
            avail = sum(v for r, v in wouts.items() if r not in used)
            amts = sorted({a for a in (vals[:1] + vals[-1:] + [avail, max(1, avail - 1)]) if a >= 1})
            ops = [('spend', a, 0) for a in amts] + [('confirm', j) for j in range(min(2, len(pending)))]
            ops += [('confirm-refund', j) for j in range(min(1, len(pending)))]
            if conf and not any(t[0] == 'reorg' for t in trace):
                ops.append(('reorg',))
            for op in ops:
                stats['transitions'] += 1
                tr = trace + (op,)
                if op[0] == 'spend':
                    viol, tx, after = check_attempt(cs, node, keys, rec, used, op[1], op[2], wallet=wal)
                    wal2 = check_attempt.last_wallet
                    for key, what in viol:
                        if len(bad) < 8:
                            bad.append((key, what, tr))
                    if tx is None:
                        stats['insufficient'] += 1
                        s2 = (node, cs, frozenset(after), used, pending, tr, conf, wal2)
                    else:
                        stats['success'] += 1
                        ins = frozenset((i.output_reference.hash, i.output_reference.index) for i in tx.inputs)
                        s2 = (node, cs, frozenset(after), used | ins, pending + (tx,), tr, conf, wal2)
                    if viol:
                        continue
                elif op[0] == 'reorg':
                    # a competing branch of empty blocks from the funding block overtakes the head: the spends confirmed so
                    # far are unconfirmed again (and valid again), their inputs are unspent again at the new head - and
                    # still used by this wallet's earlier spends
                    cur, cs2 = n1, cs
                    try:
                        for i in range(node.height - n1.height + 1):
                            b = world.assemble(cur, [], K[5], cur.ts + 60, cb_data=b'other branch')
                            cur = world.Node(b, cur, path=cur.path + ('r',))
                            cs2 = cs2.add_block(b, cur.ts)
                    except Exception:
                        continue
                    if cs2.current_chain_hash != cur.bid:
                        continue
                    stats['reorganisations'] += 1
                    s2 = (cur, cs2, rec, used, pending + conf, tr, (), wal)
                else:
                    tx = pending[op[1]]
                    kw = {}
                    if op[0] == 'confirm-refund':
                        # the confirming block's reward pays every wallet key exactly what the confirmed spend took from it
                        # (a re-used mining key), the rest goes to the miner
                        took = {}
                        for i in tx.inputs:
                            r = (i.output_reference.hash, i.output_reference.index)
                            if r not in node.utxo:
                                took = None
                                break
                            v, pk = node.utxo[r]
                            took[pk] = took.get(pk, 0) + v
                        if took is None:
                            continue          # (conflicts with an already confirmed spend)
                        outs = [(v, [k for k in keys if k.pub == pk][0]) for pk, v in sorted(took.items())]
                        outs.append((refmodel.subsidy(node.height + 1) - sum(v for v, _ in outs), K[5]))
                        kw = {'cb_outs': outs}
                    try:
                        b = world.assemble(node, [tx], K[5], node.ts + 120, **kw)
                        n2 = world.Node(b, node, path=node.path + ('c',))
                        cs2 = cs.add_block(b, n2.ts)
                    except Exception:
                        continue          # (conflicts with an already confirmed spend: cannot be mined)
                    stats['confirmed'] += 1
                    s2 = (n2, cs2, rec, used, pending[:op[1]] + pending[op[1] + 1:], tr, conf + (tx,), wal)
                k = (s2[0].bid, s2[2], s2[3], tuple(enc.txid(t) for t in s2[4]), wallet_fingerprint(s2[7]))
                if k not in seen:
                    seen.add(k)
                    stats['states'] += 1
                    nxt.append(s2)
        frontier = nxt
    return stats, bad, ('deep',) + tuple(arg)


def big_world(arg):
    """a wallet holding more than a thousand unspent outputs (one key or two): single attempts that need few, many, all but
    one and all of them - every size-dependent branch of the collection loop is entered"""
    pattern, N, two_keys, korder = arg[:4]
    part, nparts = (arg[4], arg[5]) if len(arg) > 4 else (0, 1)
    from skepticoin.coinstate import CoinState
    ledger.setup()
    seams.deterministic_wallet_signing()
    vals = {'5-ones-4': (5,) + (1,) * (N - 2) + (4,), 'ones': (1,) * N, 'ones-7': (1,) * (N - 1) + (7,),
            '9-ones': (9,) + (1,) * (N - 1), 'twos': (2,) * N,
            'twos-51s': (2,) * (N - 10) + (51,) * 10, 'interleaved-big': (1,) * (N - 3) + (300, 350, 400)}[pattern]
    dist = (vals[:N // 2], vals[N // 2:]) if two_keys else (vals, ())
    if pattern == 'interleaved-big':
        # the three largest outputs belong to K0, K1, K0 in that order of value: a selection by value interleaves the owners
        dist = ((1,) * (N - 3) + (300, 400), (350,))
    root, n1 = make_world(dist, False, False, 'asc')
    cs0 = CoinState.empty().add_block_no_validation(root.block).add_block(n1.block, n1.ts)
    keys = [K[0], K[1]] if korder == 0 else [K[1], K[0]]
    total = sum(vals)
    stats = {'states': 1, 'transitions': 0, 'success': 0, 'insufficient': 0, 'confirmed': 0}
    bad = []
    attempts = [(1, 0), (vals[0] + 1, 0), (100, 1), (255, 0), (256, 2), (N - 100, 0), (N - 1, 0), (N, 2), (N + 3, 2), (total - 2, 1),
                (total - 1, 0), (total, 0), (total + 1, 0)]
    if N >= 2000 and pattern == '5-ones-4' and not two_keys:
        # the size limit exactly: the collection stops after k inputs when amount + fee = k + 4 - change; a transaction with two
        # outputs holds 1,978 inputs, one with a single output 1,979
        for k in (1978, 1979):
            attempts += [(k + 4, 0), (k + 3, 0), (k + 2, 1)]
        attempts += [(1984, 0)]
    if pattern == 'twos':
        # change is due whenever the amount is odd: 1,978 inputs and change fit, 1,979 inputs without change fit, 1,979
        # inputs WITH change do not
        attempts = [(2 * 1978 - 1, 0), (2 * 1978, 0), (2 * 1979 - 1, 0), (2 * 1979 - 2, 1), (2 * 1979, 0), (2 * 1979 - 1, 1), (2 * 1980 - 1, 0)]
    if pattern == 'ones-7' and N >= 2000:
        # in ledger order these need more inputs than fit; with the 7 taken first 1,978 inputs give 1,984 and 1,979 give 1,985
        attempts = [(1983, 0), (1984, 0), (1984, 1), (1985, 0), (1986, 0)]
    if pattern == 'twos-51s':
        # ledger order: 1,986 / 1,986 / 2,201 inputs; largest first: 1,741 inputs and change 1 / no change / 1,956 inputs
        attempts = [(3971, 0), (3972, 0), (4400, 1)]
    if pattern == 'interleaved-big':
        attempts = [(1040, 0), (2500, 1), (1051, 0)]
    # (the attempts of one world are independent single steps from the same state: they may be spread over workers)
    attempts = attempts[part::nparts]
    for amount, fee in attempts:
        stats['transitions'] += 1
        viol, tx, after = check_attempt(cs0, n1, keys, frozenset(), frozenset(), amount, fee)
        stats['success' if tx is not None else 'insufficient'] += 1
        for key, what in viol:
            if len(bad) < 6:
                bad.append((key, what, (('spend', amount, fee),)))
    if pattern == 'interleaved-big' and part == 0:
        # the signer by itself: an unsigned transaction whose inputs alternate between the wallet's keys
        from skepticoin import consensus
        from skepticoin.datatypes import Input, Output, Transaction
        from skepticoin.wallet import Wallet, sign_transaction
        U = cs0.at_head.unspent_transaction_outs
        big = sorted((r for r, v in wallet_outputs(n1).items() if v >= 300), key=lambda r: -wallet_outputs(n1)[r])
        refs = [world.oref(r) for r in big[:3]]
        stats['transitions'] += 1
        try:
            utx = Transaction([Input(r, None) for r in refs], [Output(1040, K[2].pk), Output(10, K[1].pk)])
            stx = sign_transaction(Wallet({k.pub: k.priv for k in keys}, [], {}), U, utx)
            consensus.validate_non_coinbase_transaction_by_itself(stx)
            consensus.validate_non_coinbase_transaction_in_coinstate(stx, cs0.current_chain_hash, cs0)
            if [i.output_reference for i in stx.inputs] != refs or refmodel.validate_tx(stx, n1.utxo):
                bad.append(('invalid-transaction', "sign_transaction on inputs owned by K0, K1, K0 returns a transaction that breaks %s"
                            % sorted(refmodel.validate_tx(stx, n1.utxo)), (('sign', 'K0,K1,K0'),)))
        except Exception as e:
            bad.append(('invalid-transaction', "sign_transaction on inputs owned by K0, K1, K0: %r" % (e,), (('sign', 'K0,K1,K0'),)))
    return stats, bad, ('big',) + tuple(arg)


def big_worlds(ctx):
    N = 1100
    # (2,100 outputs: requests that need more inputs than fit in a block)
    out = [('5-ones-4', N, False, 0), ('ones-7', N, False, 0), ('9-ones', N, True, 0), ('5-ones-4', 2100, False, 0), ('twos', 2100, False, 0),
           ('ones-7', 2100, False, 0), ('twos-51s', 2100, False, 0), ('interleaved-big', 2101, False, 0)]
    if not ctx.quick:
        out += [('ones', N, False, 0), ('5-ones-4', N, True, 1), ('9-ones', 2100, True, 1)]
    # the large worlds first and in parts, so that no single worker carries the whole of one
    return [w + (p, 7) for w in out if w[1] > 2000 for p in range(7)] + [w + (p, 2) for w in out if w[1] <= 2000 for p in range(2)]


def deep_worlds(ctx):
    dists = [((1,), (2, 5)), ((5,), (1, 2)), ((1, 2), (5,)), ((2, 5), (1,)), ((2,), (1,)), ((1,), (1, 1))]
    if not ctx.quick:
        dists += [((1, 2), (2, 5)), ((5, 5), (1,)), ((1,), (2,)), ((1, 1), (1, 1))]
    out = []
    for dist in dists:
        for order in ('asc', 'desc'):
            for korder in (0, 1):
                out.append((dist, order, korder, 5 if ctx.quick else 6))
    return out


def _any(arg):
    if arg[0] == 'big':
        return big_world(arg[1])
    return deep_world(arg[1]) if arg[0] == 'deep' else explore_world(arg[1])


def worlds(ctx):
    out = []
    maxtotal = 3 if ctx.quick else 4
    for dist in distributions(maxtotal):
        for foreign in (False, True):
            for reward in (False, True):
                orders = ('asc', 'desc') if len(set(dist[0] + dist[1])) > 1 else ('asc',)
                for order in orders:
                    for korder in (0, 1):
                        if ctx.quick and (foreign or reward) and (korder or order == 'desc' or (foreign and reward)
                                                                  or len(dist[0]) + len(dist[1]) > 2):
                            continue
                        if not ctx.quick and (foreign or reward) and len(dist[0]) + len(dist[1]) > 3:
                            continue
                        out.append((dist, foreign, reward, order, korder, 2 if ctx.quick else 3, 1))
                        if not foreign and not reward and korder == 0 and order == 'asc' and len(dist[0]) and len(dist[1]):
                            # the same world with wallet keys that carry the annotation 'change'
                            for ann in (1, 2, 3):
                                out.append((dist, foreign, reward, order, korder, 2 if ctx.quick else 3, 1, ann))
    return out


def run(ctx):
    ledger.setup()
    ws = worlds(ctx)
    if ctx.seed:
        import random
        random.Random(ctx.seed).shuffle(ws)
    dws = deep_worlds(ctx)
    bws = big_worlds(ctx)
    res = ctx.pmap(_any, [('big', w) for w in bws] + [('deep', w) for w in dws] + [('flat', w) for w in ws])
    tot = {}
    for st, bad, arg in res:
        for k, v in st.items():
            tot[k] = tot.get(k, 0) + v
        for key, what, tr in bad:
            if arg[0] == 'big':
                ctx.violation(key, "%s; wallet with %d unspent outputs (pattern %s, %s), attempt %s" % (
                    what, arg[2], arg[1], 'two keys' if arg[3] else 'one key', list(tr)), {'big': list(arg[1:])})
                continue
            if arg[0] == 'deep':
                ctx.violation(key, "%s; world %s (longer history, delayed confirmations), operations %s" % (what, arg[1:4], list(tr)),
                              {'deep': [[list(arg[1][0]), list(arg[1][1])], arg[2], arg[3], arg[4]], 'trace': [list(t) for t in tr]})
                continue
            ctx.violation(key, "%s; world %s%s, attempts %s" % (what, arg[:5], (", annotation 'change' on wallet key(s) %s" % (
                {1: 'K1', 2: 'K0', 3: 'K0 and K1'}[arg[7]])) if len(arg) > 7 and arg[7] else '', list(tr)),
                          {'world': [list(arg[0][0]), list(arg[0][1])] + list(arg[1:]), 'trace': [list(t) for t in tr]})
    ctx.cov.update({
        'states': tot['states'], 'transitions': tot['transitions'], 'traces_validated_against_impl': tot['transitions'],
        'samples': [{'world': ws[0][:5], 'attempts_offered_at_every_state': attempt_alphabet(sum(ws[0][0][0]) + sum(ws[0][0][1]), False)[:6]},
                    {'world_with_delayed_confirmations': dws[0][:3], 'operations': ['spend(smallest output)', 'spend(everything available)', 'confirm(0)']}],
        'worlds': len(ws), 'successful_spends': tot['success'], 'insufficient_reports': tot['insufficient'],
        'big_wallets': [list(w) for w in bws], 'confirmations': tot['confirmed'], 'reorganisations': tot.get('reorganisations', 0), 'exhaustive': True,
        'rule': "worlds = every assignment of <= %d outputs of value 1/2/5 to two wallet keys x foreign output x 10-coin reward "
                "x output order x key-dictionary order; per world BFS over (head, record of used outputs, outputs used by "
                "successful spends) with every (amount 1..total+1, fee 0..2) at every state, attempts per path <= %d, "
                "confirmations <= %d; plus %d worlds explored to %d operations with a reduced amount alphabet (smallest / largest "
                "output, everything available, one less), confirmation of ANY still unconfirmed earlier spend as a separate "
                "operation (also by a block whose reward refunds the spending keys), one reorganisation onto a branch without the confirmed spends, ONE wallet object carried along each path; plus wallets holding 1100 outputs (13 attempts each: few, 255/256, all but one, all)" % (3 if ctx.quick else 4, ws[0][5], ws[0][6], len(dws), dws[0][3]),
    })


def replay(data, ctx):
    if 'big' in data:
        st, bad, _ = big_world(tuple(data['big']))
        return [(k, what) for k, what, tr in bad]
    if 'deep' in data:
        d = data['deep']
        st, bad, _ = deep_world(((tuple(d[0][0]), tuple(d[0][1])), d[1], d[2], d[3]))
        return [(k, what) for k, what, tr in bad]
    w = data['world']
    arg = ((tuple(w[0]), tuple(w[1])), w[2], w[3], w[4], w[5], w[6], w[7]) + ((w[8],) if len(w) > 8 else ())
    st, bad, _ = explore_world(arg)
    return [(k, what) for k, what, tr in bad]
