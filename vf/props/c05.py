"""C05 - header rules: proof of work, difficulty, height, time, evidence; own assembly is valid."""
from .. import blockcheck, cands, enc, ledger, refmodel, seams, world
from ..world import K
from . import c01

LEVEL = 'model_checking'
DTS = (30, 480)
SEAM_PERIOD, SEAM_SPAN = 4, 480
REAL_PERIOD, REAL_SPAN = 10080, 1209600


def payload(parent, label):
    return [], K[4 if label[1] != 30 else 5], label[1]


def make_universe(root_target=world.EASY_TARGET):
    u = world.Universe(world.easy_root(target=root_target), payload)
    u.sibling_labels = [('e', d) for d in DTS] + [('e', 120), ('e', 60)]
    return u


def cfg():
    return blockcheck.Config('C05', None, [cands.c05_candidates], refmodel.C05_TAGS, check_unchanged=False,
                             own_assembly=True)


PREFIXES = {
    'A': tuple(tuple(('e', 120) for _ in range(i + 1)) for i in range(2)),
    'B': tuple(tuple(('e', 60) for _ in range(i + 1)) for i in range(6)),
}
NOW = world.T0 + 10**7


def _worker(arg):
    name, hists, both = arg
    ledger.setup()
    seams.retarget_period(SEAM_PERIOD, SEAM_SPAN)
    uni = make_universe()
    c = cfg()
    c.both_forms = both
    return blockcheck.run_histories(c, uni, hists, NOW) + (name,)


def fork_histories():
    """two-branch histories whose fork lies *before* a retarget boundary and whose branches both run up to the next
    boundary (so the first block of the closing period differs between the branches), in several arrival orders"""
    out = []
    for f in (0, 1, 2, 3):
        common = tuple(tuple(('e', 120) for _ in range(i + 1)) for i in range(f))
        base = common[-1] if common else ()
        for da, db in ((30, 480), (480, 30), (60, 120)):
            A = []
            B = []
            pa, pb = base, base
            for i in range(f, 7):
                pa = pa + (('e', da),)
                pb = pb + (('e', db),)
                A.append(pa)
                B.append(pb)
            inter = tuple(x for pair in zip(A, B) for x in pair)
            out.append(common + tuple(A) + tuple(B))          # A complete first: head on A
            out.append(common + tuple(B) + tuple(A))          # B first
            out.append(common + inter)                        # interleaved
            out.append(common + tuple(A) + tuple(B[:-1]))     # B one short of the boundary parent
    return out


def grid_cases():
    tg = {0, 1, refmodel.MAX256}
    for k in range(0, 256):
        tg |= {2**k - 1, 2**k, 2**k + 1}
    tg = sorted(t for t in tg if 0 <= t <= refmodel.MAX256)
    T = REAL_SPAN
    el = [0, 1, 2, T - 1, T, T + 1, 2 * T, 4 * T, 2**31, 2**32 - 1, 120, 10080 * 120 - 60]
    for t in tg:
        for e in el:
            yield t, e


def _grid_worker(_):
    """retarget arithmetic, real constants: every power-of-two boundary x elapsed grid"""
    from skepticoin import consensus
    seams.retarget_period(REAL_PERIOD, REAL_SPAN)
    bad = []
    n = 0
    for t, e in grid_cases():
        n += 1
        exp = min(t * e // REAL_SPAN, refmodel.MAX256).to_bytes(32, 'big')
        try:
            got = consensus.calculate_new_target(t.to_bytes(32, 'big'), e)
        except Exception as ex:
            got = repr(ex)
        if got != exp and len(bad) < 5:
            bad.append((t, e, got if isinstance(got, str) else got.hex()))
    return n, bad


def long_chain(uni_root_target=(1 << 255).to_bytes(32, 'big')):
    """one chain of 10,077 unmined, unvalidated filler blocks; fork at 10,078 so that both branches cross the real
    retarget boundary 10,080 with different elapsed times"""
    root = world.easy_root(target=uni_root_target)
    n = root
    for i in range(1, 10078):
        b = world.assemble(n, [], K[4], n.ts + 120, no_evidence=True, pow_ok=None)
        n = world.Node(b, n, path=('L%d' % i,), check_apply=False)
    tips = []
    for tag, dt in (('X', 60), ('Y', 200)):
        m = n
        for j in (10078, 10079):
            b = world.assemble(m, [], K[4], m.ts + dt, no_evidence=True, pow_ok=None)
            m = world.Node(b, m, path=('%s%d' % (tag, j),), check_apply=False)
        tips.append(m)
    return root, n, tips


def _long_worker(_):
    from skepticoin.coinstate import CoinState
    ledger.setup()
    seams.retarget_period(REAL_PERIOD, REAL_SPAN)
    root, trunk, tips = long_chain()
    out = []
    st = {'states': 0, 'transitions': 0, 'accepted': 0, 'rejected': 0, 'controls_accepted': 0, 'controls_rejected': 0}
    hs = {}
    c = cfg()

    class U:        # minimal universe facade for the candidate builder
        sibling_labels = ()

        def get(self, p):
            return None
    for order in ((0, 1), (1, 0)):
        cs = CoinState.empty()
        for nd in trunk.chain():
            cs = cs.add_block_no_validation(nd.block)
        for i in order:
            for nd in tips[i].chain()[-2:]:
                cs = cs.add_block_no_validation(nd.block)
        st['states'] += 1
        head = tips[order[0]]
        for P in (tips[0], tips[1], tips[0].parent, tips[1].parent):
            for cand in cands.c05_candidates(P, U()):
                st['transitions'] += 1
                e = hs.setdefault(cand.name, [0, 0])
                try:
                    cs.add_block(cand.wire(), cand.now)
                    acc = True
                except Exception:
                    acc = False
                e[0 if acc else 1] += 1
                if acc:
                    st['accepted'] += 1
                    tags = cand.tags()
                    if cand.control and not tags:
                        st['controls_accepted'] += 1
                    if tags & refmodel.C05_TAGS:
                        out.append(('accepted-' + cand.name, "real retarget period: block '%s' on %s accepted although it "
                                    "breaks %s" % (cand.name, P.path, sorted(tags & refmodel.C05_TAGS)), (), P.path, cand.name))
                else:
                    st['rejected'] += 1
                    if cand.control:
                        st['controls_rejected'] += 1
        blockcheck.own_assembly(c, None, cs, head, (), st, out)
    return st, out, hs, 'long'


MINER_CONFIGS = [((('f',), ('f', 's')), (), -30, 'none'), ((('f',), ('f', 's')), (), -29, 'none')] + \
                [((('f',), ('f', 's')), (), off, inter) for off in (0, 1, 120)
                 for inter in ('none', ('none', ('two', 0)), ('clock-advances', ('two', 1)), ('clock-advances', ('after-result', 0)))] + \
                [((('f',), ('f', 's'), ('f', 's', 'e')), (), off, inter) for off in (0, 120)
                 for inter in (('none', ('two', 0)), ('clock-advances', ('after-request', 0)))]


def _miner_worker(cfgs):
    """the last sentence of C05 through the node's real assembly path: the MinerWatcher's work requests and results (one and
    two miner processes, clock advancing between requests; retarget period seam so that some candidates are boundary
    blocks): whenever a header assembled by the node has an id below its target, the node's own validation accepts it"""
    import contextlib
    import io
    from . import c12
    c12._W.clear()
    c12.setup_worker()
    out = []
    n = 0
    for cfg in cfgs:
        with contextlib.redirect_stdout(io.StringIO()):
            bad, info = c12.one_run(*cfg)
        n += 1
        for key, what in (bad or []):
            if key.startswith('mined-block-fails-validation') and 'time_future@clock=head-30' not in key:
                out.append(('own-assembly-rejected-in-miner', what, cfg))
            elif key == 'miner-handler-raises' and 'Validate' in what:
                out.append(('own-assembly-rejected-in-miner', what, cfg))
            elif key.startswith('invalid-found-block-adopted'):
                out.append(('miner-adopts-block-failing-header-rules', what, cfg))
    return n, out


def _node_header_worker(share):
    """the header rules at the level of the node: every C05 candidate on the head is relayed by a peer to a real node (the
    message header's time stamp forged to the block's own); a block the reference validator refuses at the node's clock
    must not enter the node's chain state"""
    from . import c09
    from .. import cands
    i, k = share
    c09.setup_worker()
    w0 = c09.World()
    head = w0.fc.head()
    w0.close()
    cl = [c for c in cands.c05_candidates(head, w0.uni) if c.wire() is not None]
    out = []
    n = 0
    for c in cl[i::k]:
        w = c09.World()
        try:
            now = c.now if c.now is not None else head.ts + 3000
            tags = refmodel.validate_block(c.block, head, now)
            w.deliver_block(c.block, now)
            n += 1
            if enc.blockid(c.block) in w.node.cm.coinstate.block_by_hash and tags:
                out.append(('node-accepts-' + c.name, "relayed block '%s' enters the node's chain state although it breaks %s at the "
                            "node's clock" % (c.name, sorted(tags)), c.name))
        finally:
            w.close()
    return n, out


def run(ctx):
    # node-level and miner-watcher parts first: their workers are forked before this module's seams are installed
    nres = ctx.pmap(_node_header_worker, [(i, 8) for i in range(8)])
    for n, out in nres:
        for key, what, cname in out:
            ctx.violation(key, what, {'kind': 'node', 'cand': cname})
    ctx.cov['node_level_relays'] = sum(n for n, _ in nres)
    mres = ctx.pmap(_miner_worker, [MINER_CONFIGS[i::8] for i in range(8)])
    for n, out in mres:
        for key, what, cfg in out:
            ctx.violation(key, "%s; miner watcher on history %s, clock offset %+d, event %s" % (what, ledger.hist_str(cfg[0]), cfg[2], cfg[3]),
                          {'kind': 'miner', 'cfg': [[list(p) for p in cfg[0]], list(cfg[1]), cfg[2],
                                                    cfg[3] if isinstance(cfg[3], str) else [cfg[3][0], list(cfg[3][1])]]})
    ctx.cov['miner_watcher_runs'] = sum(n for n, _ in mres)
    ledger.setup()
    seams.retarget_period(SEAM_PERIOD, SEAM_SPAN)
    uni = make_universe()
    labels = [('e', d) for d in DTS]
    depths = {'A': 4, 'B': 3} if ctx.quick else {'A': 5, 'B': 4}
    jobs = []
    per_depth = {}
    samples = []
    for name in ('A', 'B'):
        levels = ledger.enumerate_histories(uni, PREFIXES[name], labels, depths[name])
        hists = [h for lv in levels for h in lv]
        per_depth[name] = [len(l) for l in levels]
        samples.append(ledger.hist_str(levels[-1][len(levels[-1]) // 2]))
        if ctx.seed:
            import random
            random.Random(ctx.seed).shuffle(hists)
        nchunk = max(1, min(len(hists), ctx.ncpu * 4))
        jobs += [(name, hists[i::nchunk], not ctx.quick) for i in range(nchunk)]
    fh = fork_histories()
    per_depth['forks-across-a-boundary'] = [len(fh)]
    jobs += [('F', fh[i::8], not ctx.quick) for i in range(8)]
    ctx.log("histories", per_depth)
    res = ctx.pmap(_worker, jobs)
    ng, gbad = ctx.pmap(_grid_worker, [0, 1])[0]
    for t, e, got in gbad:
        ctx.violation('retarget-arithmetic', "calculate_new_target(%d, %d) = %s" % (t, e, got), {'kind': 'grid', 't': t, 'e': e})
    if not ctx.quick:
        res += ctx.pmap(_long_worker, [0, 1])[:1]
    tot, hs = blockcheck.merge(ctx, res, 'C05')
    c01.finish(ctx, tot, hs, per_depth, samples,
               extra_rule="; retarget period rebound to %d blocks / %d s for the tree search%s; plus %d-case retarget "
               "arithmetic grid with the real constants" % (SEAM_PERIOD, SEAM_SPAN,
                                                            "" if ctx.quick else ", real 10,080 period on one long forked chain", ng))
    ctx.cov['retarget_grid_cases'] = ng
    ctx.assumptions.append("'every 256-bit previous target' is covered at every power-of-two boundary (2^k-1, 2^k, 2^k+1), "
                           "not over all 2^256 values")


def replay(data, ctx):
    if data.get('kind') == 'node':
        out = []
        for i in range(8):
            out += [(k, w) for k, w, c in _node_header_worker((i, 8))[1] if c == data['cand']]
        return out
    if data.get('kind') == 'miner':
        c = data['cfg']
        it = c[3] if isinstance(c[3], str) else (c[3][0], tuple(c[3][1]))
        n, out = _miner_worker([(tuple(tuple(p) for p in c[0]), tuple(c[1]), c[2], it)])
        return [(k, w) for k, w, _ in out]
    ledger.setup()
    if data.get('kind') == 'grid':
        from skepticoin import consensus
        seams.retarget_period(REAL_PERIOD, REAL_SPAN)
        t, e = data['t'], data['e']
        exp = min(t * e // REAL_SPAN, refmodel.MAX256).to_bytes(32, 'big')
        try:
            got = consensus.calculate_new_target(t.to_bytes(32, 'big'), e)
        except Exception:
            got = None
        return [('retarget-arithmetic', 'differs')] if got != exp else []
    if data.get('uni') == 'long':
        st, out, hs, _ = _long_worker(0)
        return [(k, w) for k, w, _, _, _ in out]
    seams.retarget_period(SEAM_PERIOD, SEAM_SPAN)
    return c01.replay_one(cfg(), make_universe(), data, NOW)
