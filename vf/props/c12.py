"""C12 - mining: assembled blocks are valid, pay subsidy plus fees to the miner's key, and are adopted.
The real MinerWatcher handlers are driven by the harness in the role of the miner process, over ledger states x
admissible pool subsets x clock offsets x an optional event between work request and result."""
import contextlib
import io
import itertools
import os
import shutil
import sqlite3

from .. import enc, ledger, refmodel, seams, simnet, thrscen, world
from ..world import K, oref, owned
from . import c13

LEVEL = 'model_checking'
PREFIX = (('f',), ('f', 's'))
OFFSETS = (-30, -29, -1, 0, 1, 120)
WKEYS = [world.Key(0x6001 + i) for i in range(4)]
_W = {}


def setup_worker():
    if _W:
        return _W
    from skepticoin import blockstore, mining
    ledger.setup()
    seams.deterministic_wallet_signing()
    net = simnet.Net(seams.Clock(0))
    net.install()
    seams.rebind(mining, 'time', net.clock)
    # retarget period 4 (timespan scaled alike): candidates at heights 4 and 8 are retarget-boundary blocks, whose
    # prescribed target depends on the candidate's own time stamp
    seams.retarget_period(4, 480)
    # root target 2^255: about every second nonce wins, so runs contain losing requests before the winning one
    uni = ledger.tx_universe('easy', root_target=(1 << 255).to_bytes(32, 'big'))
    # save_wallet writes wallet.json(.new) into the cwd: one private directory per worker process
    d = os.path.join(os.getcwd(), 'c12-%d' % os.getpid())
    os.makedirs(d, exist_ok=True)
    os.chdir(d)
    tpl = os.path.join(os.getcwd(), 'c12-template-%d.db' % os.getpid())
    if os.path.exists(tpl):
        os.remove(tpl)
    with contextlib.redirect_stdout(io.StringIO()):
        st = blockstore.BlockStore(tpl)
    st.close()
    seams.rebind(blockstore.DefaultBlockStore, 'instance', blockstore.DefaultBlockStore.instance)
    _W.update(net=net, uni=uni, tpl=tpl)
    return _W


class Q:
    def __init__(self):
        self.items = []

    def put(self, x):
        self.items.append(x)


def pool_menu(H, big=False):
    """pending transactions valid at H (name -> tx); fees 0, 3, 1000, 10^8; 1- and 2-input"""
    U = H.utxo
    o0 = owned(U, K[0])
    o1 = owned(U, K[1])
    out = {}
    if o0:
        v = U[o0[0]][0]
        if v > 2 * 10**8:
            out['fee1e8'] = world.mk_tx([(oref(o0[0]), K[0])], [(v - 10**8 - 5, K[1]), (5, K[0])])
        else:
            out['fee1000'] = world.mk_tx([(oref(o0[0]), K[0])], [(v - 1000, K[1])])
    if len(o0) > 1:
        v = U[o0[1]][0]
        out['fee0'] = world.mk_tx([(oref(o0[1]), K[0])], [(v, K[2])])
    if len(o1) >= 2:
        v = U[o1[0]][0] + U[o1[1]][0]
        out['2in-fee3'] = world.mk_tx([(oref(o1[0]), K[1]), (oref(o1[1]), K[1])], [(v // 2, K[0]), (v - v // 2 - 3, K[1])])
    if big and len(o0) > 1 and [n_ for n_ in out if n_ != 'fee0']:
        # a pool that fits in one block ONLY JUST: a small fee-paying transaction plus one with so many outputs that the block
        # holding both (and the reward) is within one output's size of the 200,000-byte limit
        from skepticoin import consensus
        MAXB = consensus.MAX_BLOCK_SIZE
        small = out[[n_ for n_ in sorted(out) if n_ != 'fee0'][0]]
        v = U[o0[1]][0]

        def mk(n):
            return world.mk_tx([(oref(o0[1]), K[0])], [(1, K[2])] * n + [(v - n - 5000, K[0])])

        def size(t):
            return len(enc.enc_block(world.assemble(H, [small, t], K[5], H.ts + 120, pow_ok=None, no_evidence=True)))
        try:
            s1, s2 = size(mk(1000)), size(mk(1001))
            per = s2 - s1
            n = 1000 + (MAXB - s1) // per
            while size(mk(n)) > MAXB:
                n -= 1
            if v - n - 5000 > 0 and MAXB - size(mk(n)) < per:
                out['zbig-to-the-limit'] = mk(n)
        except Exception:
            pass
    return out


def one_run(hist, pool_names, off, inter, uni_kind='easy'):
    """returns (violations list of (key, what), info dict)"""
    from skepticoin import blockstore, consensus, mining
    from skepticoin.networking.disk_interface import DiskInterface
    from skepticoin.wallet import Wallet
    W = setup_worker()
    uni = W['uni']
    net = W['net']
    for lst in (net.escaped, net.dialling, net.connections, net.nodes):
        lst.clear()
    net.listeners.clear()
    net._eph = 40000
    bad = []
    info = {}
    # ---- ledger state + store holding it
    now_build = world.T0 + 10**6
    cs, fc = ledger.build(uni, hist, now_build, True)
    path = W['tpl'] + '.run%d' % os.getpid()
    shutil.copyfile(W['tpl'], path)
    with contextlib.redirect_stdout(io.StringIO()):
        store = blockstore.BlockStore(path)
    blockstore.DefaultBlockStore.instance = store
    store.add_block_to_buffer(uni.root.block)
    for p in hist:
        store.add_block_to_buffer(uni.get(p).block)
    store.flush_blocks_to_disk()
    H = fc.head()
    net.clock.t = H.ts + off

    class Disk(DiskInterface):
        def save_transaction_for_debugging(self, transaction):
            pass
    node = simnet.SimNode(net, 'N', '10.0.0.1', cs, disk=Disk())
    peers = []
    # (the third peer shares its address with the first: two nodes behind one address are two peers)
    for i, host in enumerate(('5.5.5.1', '5.5.5.2', '5.5.5.1')):
        p = simnet.Remote(net, node, host=host)
        p.hello(nonce=50 + i)
        peers.append(p)
    node.tick()
    for p in peers:
        p.received()
    menu = pool_menu(H, big='zbig-to-the-limit' in pool_names)
    for nm in pool_names:
        node.cm.add_transaction_to_pool(menu[nm])
    pool_txs = [menu[nm] for nm in pool_names]
    if [enc.txid(t) for t in node.cm.transaction_pool] != [enc.txid(t) for t in pool_txs]:
        store.close()
        return None, {'skip': 'pool not admitted'}
    # ---- the watcher, without its constructor
    mw = mining.MinerWatcher.__new__(mining.MinerWatcher)
    wallet = Wallet({k.pub: k.priv for k in WKEYS}, [k.pub for k in WKEYS], {})
    mw.wallet = wallet
    mw.coinstate = cs
    mw.mining_args = {}
    mw.hash_stats = {}
    mw.send_queues = [Q()]
    mw.log_silencer = []
    from decimal import Decimal
    mw.balance = Decimal(0)
    mw.start_balance = Decimal(0)
    import datetime
    mw.start_time = datetime.datetime(2020, 1, 1)

    class Args:
        quiet = True
    mw.args = Args()

    class NT:
        local_peer = node.lp
    mw.network_thread = NT()
    mw.public_key = wallet.get_annotated_public_key("reserved for potentially mined block")
    miner_pub = mw.public_key
    # ---- play the miner process(es): request / result operations of one or two miner ids sharing the watcher; the
    #      intervening event is injected after the `ipos`-th operation of the schedule
    ikind, ipos = (inter if isinstance(inter, tuple) else (inter, 0))
    two = isinstance(ipos, tuple) and ipos[0] == 'two'
    if two:
        ipos = ipos[1]
        mw.send_queues = [Q(), Q()]
    elif isinstance(ipos, tuple):
        ipos = {('after-request', 0): 0, ('after-request', 1): 2, ('after-result', 0): 1}[ipos]
    cur = {'head': H}
    clock = H.ts + off
    relay_count = [dict() for _ in peers]

    def drain_peers():
        for i, p in enumerate(peers):
            for hh, m in p.received():
                if type(m).__name__ == 'DataMessage' and m.data_type == b'\x00\x00' and hh.in_response_to == 0:
                    k = enc.blockid(m.data)
                    relay_count[i][k] = relay_count[i].get(k, 0) + 1

    def inject():
        if ikind == 'competing-block':
            ts = max(H.ts + 1, clock + 10)
            if ts > clock + 30:
                return
            compb = world.assemble(H, [], K[5], ts, cb_data=b'competitor')
            comp = world.Node(compb, H, path=H.path + ('comp',))
            from skepticoin.networking.messages import DataMessage, DATA_BLOCK
            peers[0].send(DataMessage(DATA_BLOCK, world.from_wire(compb)))
            if comp.bid in node.cm.coinstate.block_by_hash:
                info['competitor_stored'] = True
                if node.cm.coinstate.current_chain_hash == comp.bid:
                    cur['head'] = comp
            # ... and after that head change somebody submits another spend of an output a pending transaction spends (it is
            # refused by a pool that knows what its transactions spend; admitted, it would make the next candidate invalid)
            try:
                o0_ = owned(H.utxo, K[0])
                for nm_ in pool_names:
                    r_ = {'fee1000': 0, 'fee1e8': 0, 'fee0': 1}.get(nm_)
                    if r_ is not None and len(o0_) > r_:
                        v_ = H.utxo[o0_[r_]][0]
                        node.cm.add_transaction_to_pool(world.mk_tx([(oref(o0_[r_]), K[0])], [(v_ - 777, K[2])]))
            except Exception:
                pass
        elif ikind == 'bulk-block-includes-pool':
            # a block arrives as the answer to a request (bulk-download path: applied without full validation) that extends
            # the head and contains the pending transactions; the miner's next request must be served from the new head
            ts = max(H.ts + 1, clock + 10)
            if ts > clock + 30 or not pool_txs:
                return
            try:
                compb = world.assemble(H, list(pool_txs), K[5], ts, cb_data=b'bulk')
            except Exception:
                return
            comp = world.Node(compb, H, path=H.path + ('bulk',))
            from skepticoin.networking.messages import DataMessage, DATA_BLOCK
            peers[0].send(DataMessage(DATA_BLOCK, world.from_wire(compb)), in_response_to=77)
            if comp.bid in node.cm.coinstate.block_by_hash:
                info['competitor_stored'] = True
                if node.cm.coinstate.current_chain_hash == comp.bid:
                    cur['head'] = comp
        elif ikind == 'clock-advances':
            net.clock.t += 7
        elif ikind == 'first-peer-socket-dead':
            # fault injection: the node's socket to its FIRST peer is dead (closed behind the selector's back); sending to
            # that peer fails - the other peer must still get the found block
            peers[0].node_sock.closed = True
        elif ikind == 'pool-gains-tx':
            extra = [t for nm, t in menu.items() if nm not in pool_names]
            if extra:
                node.cm.add_transaction_to_pool(extra[0])

    def schedule():
        n = 0
        while True:
            if two:
                yield ('req', 0, n)
                yield ('req', 1, n + 1000)
                yield ('res', 0, n)
                yield ('res', 1, n + 1000)
            else:
                yield ('req', 0, n)
                yield ('res', 0, n)
            n += 1
    req = {}
    found_blocks = []
    escaped = None
    nops = 0
    for op, m, nonce in schedule():
        if nops >= 120 or len(found_blocks) >= (2 if two else 1) or escaped:
            break
        net.current = node
        if op == 'req':
            try:
                mw.handle_request_scrypt_input_message(m, nonce)
            except Exception as e:
                escaped = ('request', e)
                break
            kind, (summary, height) = mw.send_queues[m].items[-1]
            # what the miner process gets is a COPY made at this moment (the queue pickles it); the watcher's own record of
            # the request is whatever mining_args holds when the result comes back
            from skepticoin.datatypes import BlockSummary
            s0, h0, t0 = mw.mining_args[m]
            req[m] = {'summary': BlockSummary.deserialize(summary.serialize()), 'height': height,
                      'served': (node.cm.coinstate, list(node.cm.transaction_pool)), 'parent': cur['head'],
                      'txs': list(t0)}
        else:
            if m not in req:
                continue
            r = req[m]
            sh = consensus.construct_summary_hash(r['summary'], r['height'])
            before_cm_head = node.cm.coinstate.current_chain_hash
            s_, h_, txs_ = r['summary'], r['height'], r['txs']
            from skepticoin.datatypes import Block, BlockHeader
            blk = None
            try:
                ev = consensus.construct_pow_evidence_after_scrypt(sh, r['served'][0], s_, h_, txs_)
                blk = Block(BlockHeader(s_, ev), txs_)
            except Exception:
                pass
            exc = None
            try:
                mw.handle_scrypt_output_message(m, sh)
            except Exception as e:
                exc = e
            node.flush()
            drain_peers()
            if blk is not None and blk.hash() < blk.target:
                found_blocks.append({'block': blk, 'req': r, 'before_cm_head': before_cm_head, 'exc': exc, 'miner': m, 'clock': net.clock.t,
                                     'cm_after': node.cm.coinstate, 'pub': r.get('pub')})
                if node.cm.coinstate.current_chain_hash == enc.blockid(blk):
                    cur['head'] = world.Node(blk, r['parent'], path=r['parent'].path + ('mined%d' % len(found_blocks),), check_apply=False)
                    try:
                        cur['head'].utxo = refmodel.apply_block(r['parent'].utxo, blk)
                    except Exception:
                        pass
            elif exc is not None:
                escaped = ('result', exc)
        if op == 'req':
            req[m]['pub'] = mw.public_key
        if ikind != 'none' and nops == ipos:
            inject()
            drain_peers()
        nops += 1
    if not found_blocks:
        store.close()
        if escaped:
            bad.append(('miner-handler-raises', "miner %s handler raises %r before any block was found" % escaped))
        return bad, {'skip': 'no block found'}
    info['found'] = True
    for fb in found_blocks:
        found = fb['block']
        r = fb['req']
        Hp = r['parent']
        bid = enc.blockid(found)
        miner_pub = r['pub']
        tags = refmodel.validate_block(found, Hp, fb['clock'])
        try:
            r['served'][0].add_block(found, fb['clock'])
            own_ok = True
        except Exception as e:
            own_ok = False
            own_err = repr(e)[:80]
        if tags or not own_ok:
            bad.append(('mined-block-fails-validation:' + '+'.join(sorted(tags) or ['node-only']) + '@clock=head%+d' % off,
                        "the block assembled and found at clock = head time %+d s fails %s" % (
                            off, ("full validation: " + ', '.join(sorted(tags))) if tags else ("the node's own validation: " + own_err))))
            # ... and a block that fails validation at the node's clock must not have been adopted by the found-block handler
            if bid in fb['cm_after'].block_by_hash or any(relay_count[i].get(bid, 0) for i in range(len(peers))):
                bad.append(('invalid-found-block-adopted:' + '+'.join(sorted(tags) or ['node-only']),
                            "the found block fails full validation at the node's clock (%s) but the found-block handler put it into "
                            "the served chain state / broadcast it" % (', '.join(sorted(tags)) or own_err)))
        fees = 0
        try:
            for t in found.transactions[1:]:
                fees += sum(Hp.utxo[refmodel.refkey(i.output_reference)][0] for i in t.inputs) - sum(o.value for o in t.outputs)
        except KeyError:
            fees = None
        rw = found.transactions[0]
        if fees is not None and sum(o.value for o in rw.outputs) != refmodel.subsidy(Hp.height + 1) + fees:
            bad.append(('reward-not-exact', "reward pays %d, subsidy + fees of the included transactions is %d" % (
                sum(o.value for o in rw.outputs), refmodel.subsidy(Hp.height + 1) + fees)))
        if any(o.public_key.public_key != miner_pub for o in rw.outputs):
            bad.append(('reward-wrong-key', "reward does not pay the miner's key"))
        if found.header.summary.timestamp <= Hp.ts:
            bad.append(('timestamp-not-after-parent', "block time %d <= parent time %d" % (found.header.summary.timestamp, Hp.ts)))
        # ---- adoption (only meaningful for a block that is valid: an invalid one must not be adopted)
        if not tags and own_ok:
            after = fb['cm_after']
            who = "miner %d's block" % fb['miner'] if two else "the found block"
            if bid not in after.block_by_hash:
                bad.append(('found-block-not-in-served-state', "after the found-block handler the chain state served to peers does "
                            "not contain %s (served head height %d, block height %d)" % (who, after.head().height, Hp.height + 1)))
            elif found.header.summary.previous_block_hash == fb['before_cm_head'] and after.current_chain_hash != bid:
                bad.append(('found-block-not-head', "%s extends the served head but is not the served head afterwards" % who))
            try:
                con = sqlite3.connect(path, timeout=0.2)
                rows = {r_[0] for r_ in con.execute("select block_hash from chain")}
                con.close()
            except Exception as e:
                rows = set()
            if bid not in rows:
                bad.append(('found-block-not-stored', "%s is not in the block store" % who))
            for i, p in enumerate(peers):
                n = relay_count[i].get(bid, 0)
                if p.alive and n != 1:
                    bad.append(('found-block-broadcast-count', "peer %d received %s %d times" % (i, who, n)))
            if fb['exc'] is not None:
                bad.append(('miner-handler-raises', "found-block handler raises %r for a valid block" % (fb['exc'],)))
    if net.escaped:
        bad.append(('exception-escaped', "node handler: %s" % (net.escaped[0],)))
    store.close()
    return bad, info


def configs(ctx):
    """(history, pool subset names, clock offset, intervening event)"""
    W = setup_worker()
    uni = W['uni']
    depth = 2 if ctx.quick else 3
    levels = ledger.enumerate_histories(uni, PREFIX, ('e', 'a', 'b', 'c'), depth)
    out = []
    for lv in levels:
        for hist in lv:
            fc = refmodel.ForkChoice()
            fc.add(uni.root)
            for p in hist:
                fc.add(uni.get(p))
            H = fc.head()
            names = sorted(pool_menu(H).keys())
            subsets = [s for k in range(0, 4) for s in itertools.combinations(names, k)]
            if hist == lv[0] and [n_ for n_ in names if n_ != 'fee0']:
                # (one state per depth) the pool that fits in one block only just
                for off in (0, 120):
                    out.append((hist, ([n_ for n_ in names if n_ != 'fee0'][0], 'zbig-to-the-limit'), off, 'none'))
            for sub in subsets:
                for off in OFFSETS:
                    inters = ['none']
                    if off in (-1, 0, 120) and len(sub) <= 1:
                        for pos in (('after-request', 0), ('after-request', 1), ('after-result', 0)):
                            inters += [('competing-block', pos), ('pool-gains-tx', pos)]
                            if off >= 0:
                                inters += [('clock-advances', pos)]
                            if off == 0 and pos[1] == 0:
                                inters += [('first-peer-socket-dead', pos)]
                            if off in (0, 120) and len(sub) == 1 and pos == ('after-result', 0):
                                inters += [('bulk-block-includes-pool', pos)]
                    if off in (0, 120) and len(sub) <= 1:
                        # two miner processes sharing the watcher: req0 req1 res0 res1 ...; event after operation k
                        inters += [('none', ('two', 0))]
                        for k in (0, 1, 2):
                            inters += [('competing-block', ('two', k)), ('pool-gains-tx', ('two', k))]
                    for it in inters:
                        out.append((hist, sub, off, it))
    return out, [len(l) for l in levels]


def _worker(chunk):
    _W.clear()          # forked from the parent: take a private directory / template
    setup_worker()
    res = []
    st = {'runs': 0, 'found': 0, 'skipped': 0}
    for cfg in chunk:
        with contextlib.redirect_stdout(io.StringIO()):
            bad, info = one_run(*cfg)
        st['runs'] += 1
        if info.get('found'):
            st['found'] += 1
        if info.get('skip'):
            st['skipped'] += 1
        for key, what in (bad or []):
            res.append((key, what, cfg))
    best = {}
    for key, what, cfg in res:
        sz = len(cfg[0]) * 10 + len(cfg[1])
        if key not in best or sz < best[key][0]:
            best[key] = (sz, what, cfg)
    return st, [(k, v[1], v[2]) for k, v in best.items()]


def run(ctx):
    # ---- the schedule dimension first (its workers are forked before this module's seams are installed): the
    #      found-block handler (miner thread) against the networking thread handling a delivery
    thr = thrscen.run(ctx, 'MN', 1 if ctx.quick else 2, names=['found-vs-valid-sibling-delivery', 'found-vs-invalid-delivery', 'found-vs-transaction-delivery', 'request-vs-block-including-pending-tx', 'request-vs-transaction-delivery'], only=['C12:'])
    thr_c = thrscen.run(ctx, 'MNc', 2 if ctx.quick else 3, names=['found-vs-valid-sibling-delivery', 'found-vs-invalid-delivery', 'found-vs-transaction-delivery'], only=['C12:'])   # coarser points, one preemption more
    ctx.cov['thread_schedules_coarse'] = thr_c
    ctx.cov['thread_schedules'] = thr
    cfgs, per_level = configs(ctx)
    ctx.log("ledger states per depth", per_level, "runs", len(cfgs))
    if ctx.seed:
        import random
        random.Random(ctx.seed).shuffle(cfgs)
    n = max(1, min(len(cfgs), ctx.ncpu * 4))
    res = ctx.pmap(_worker, [cfgs[i::n] for i in range(n)])
    tot = {'runs': 0, 'found': 0, 'skipped': 0}
    for st, bad in res:
        for k in tot:
            tot[k] += st[k]
        for key, what, cfg in bad:
            ctx.violation(key, "%s; ledger history %s, pool %s, clock offset %+d, intervening event %s" % (
                what, ledger.hist_str(cfg[0]), list(cfg[1]), cfg[2], cfg[3]),
                {'hist': [list(p) for p in cfg[0]], 'pool': list(cfg[1]), 'off': cfg[2],
                 'inter': cfg[3] if isinstance(cfg[3], str) else [cfg[3][0], list(cfg[3][1]) if isinstance(cfg[3][1], tuple) else cfg[3][1]]})
    ctx.cov.update({
        'states': sum(per_level), 'transitions': tot['runs'], 'traces_validated_against_impl': tot['found'],
        'samples': [{'history': ledger.hist_str(cfgs[0][0]), 'pool': list(cfgs[0][1]), 'clock_offset': cfgs[0][2], 'event': cfgs[0][3]}],
        'runs': tot['runs'], 'blocks_found': tot['found'], 'runs_skipped': tot['skipped'], 'exhaustive': True,
        'rule': "states = ledger states of a block-tree search (depth %d beyond a funded prefix, forks, head on either branch); "
                "per state every compatible pool subset of size <= 3 x clock - head time in %s x {no event, clock advances by 7 s, the socket to the first peer is dead, competing block "
                "arrives, pool gains a transaction} between work request and result; transitions = complete request/result "
                "runs of the real MinerWatcher handlers" % (2 if ctx.quick else 3, list(OFFSETS)),
    })


def replay(data, ctx):
    if 'thread_scenario' in data:
        return thrscen.replay(data)
    setup_worker()
    with contextlib.redirect_stdout(io.StringIO()):
        it = data['inter'] if isinstance(data['inter'], str) else (
            data['inter'][0], tuple(data['inter'][1]) if isinstance(data['inter'][1], list) else data['inter'][1])
        bad, info = one_run(tuple(tuple(p) for p in data['hist']), tuple(data['pool']), data['off'], it)
    return list(bad or [])
