"""C03 - ledger state at a block is a function of that block's chain alone; snapshots are immutable.
All block trees over the payload menu (forks that spend differently / the same output / include the same
transaction) x arrival orders (de-duplicated on (stored set, head)), through both entry points."""
import hashlib

from .. import enc, ledger, refmodel, world
from ..world import K

LEVEL = 'model_checking'
PREFIX = (('f',), ('f', 's'))
LABELS = ('e', 'a', 'b', 'c', 'd')
LABELS2 = ('e', 'a', 'g', 'y')     # incl. transactions / rewards paying a never-seen key twice
LABELS4 = ('q', 'r', 'w', 'e')     # two outputs of one transaction / reward with the same amount and key, the later one spent
LABELS3 = ('z', 'k', 'e', 'i')     # a zero-value reward output to a key that then spends all its positive outputs; a
#                                    transaction whose inputs alternate between owners


def view_digest(utxo, bal):
    h = hashlib.sha256()
    for k, v in sorted(utxo.items()):
        h.update(k[0] + k[1].to_bytes(4, 'big') + repr(v[0]).encode() + v[1])
    for pk in sorted(bal):
        h.update(pk + repr(bal[pk][0]).encode())
        for r in sorted(bal[pk][1]):
            h.update(r[0] + r[1].to_bytes(4, 'big'))
    return h.digest()


def check_views(cs, uni, stored, out, hist, tag, reverse=False):
    """every stored block: unspent set and per-key balances vs reference replay of that block's own chain.
    reverse: query descendants before ancestors (what is computed on demand for a descendant must not leak into what
    is reported for an ancestor)"""
    n_cmp = 0
    for node in (stored[::-1] if reverse else stored):
        n_cmp += 1
        where = "%s at block %s" % (tag, '/'.join(node.path) or '<root>')
        try:
            got = ledger.utxo_view(cs.unspent_transaction_outs_by_hash[node.bid])
        except Exception as e:
            out.append(('utxo-missing', "%s: no unspent set (%r)" % (where, e), hist))
            continue
        if got != node.utxo:
            extra = sorted(set(got) - set(node.utxo))[:2]
            miss = sorted(set(node.utxo) - set(got))[:2]
            out.append(('utxo', "%s: unspent set differs from replay of its ancestors (extra %s missing %s)" % (
                where, [(a.hex()[:8], b) for a, b in extra], [(a.hex()[:8], b) for a, b in miss]), hist))
            continue
        try:
            bal = cs.public_key_balances_by_hash[node.bid]
        except Exception as e:
            out.append(('balance-raises', "%s: balance query raises %r" % (where, e), hist))
            continue
        rb = refmodel.balances(node.utxo)
        seen = set()
        for pk, b in bal.items():
            pkb = pk.public_key
            seen.add(pkb)
            refs = [(r.hash, r.index) for r in b.output_references]
            exp = rb.get(pkb, [0, set()])
            if b.value != exp[0]:
                out.append(('balance-value', "%s: balance of key %s is %s, unspent outputs paying it sum to %s" % (
                    where, pkb.hex()[:8], b.value, exp[0]), hist))
                break
            if len(refs) != len(set(refs)) or set(refs) != exp[1]:
                out.append(('balance-refs', "%s: reference list of key %s has %d entries (%d distinct), reference %d" % (
                    where, pkb.hex()[:8], len(refs), len(set(refs)), len(exp[1])), hist))
                break
        else:
            if set(rb) - seen:
                out.append(('balance-missing-key', "%s: key with unspent outputs missing from balances" % where, hist))
    return n_cmp


def _worker(hists, quick_modes=False):
    from skepticoin.wallet import Wallet
    ledger.setup()
    from .. import seams
    seams.deterministic_wallet_signing()
    uni = ledger.tx_universe('easy')
    now = world.T0 + 10**6
    out = []
    stats = {'states': 0, 'transitions': 0, 'views': 0, 'snapshots': 0, 'orders': 0}
    wallet = Wallet({K[0].pub: K[0].priv, K[1].pub: K[1].priv}, [K[1].pub], {K[0].pub: 'x'})
    digests = []
    deepest = max(len(h) for h in hists) if quick_modes else 99
    for hist in hists:
        stored = [uni.root] + [uni.get(p) for p in hist]
        per_block = None
        modes = ((True, None), (False, None), (True, 'head'), (False, 'all'), (True, 'wallet'))
        if len(hist) >= deepest:
            modes = ((True, 'head'), (False, None))     # quick tier: two of the four build modes at the deepest level
        for validated, lookups in modes:
            snaps = []
            try:
                cs, fc = ledger.build(uni, hist, now, validated, snapshots=snaps, lookups=lookups)
            except Exception as e:
                out.append(('valid-block-refused', "a valid block of the history is refused: %r" % (e,), hist))
                continue
            stats['transitions'] += len(hist)
            stats['states'] += 1
            # snapshot fingerprints right after creation (they were taken as values; fingerprint lazily now for
            # the last three, eagerly re-taken after further activity below)
            before = [ledger.fingerprint(s, balances=False) for s in snaps]
            stats['views'] += check_views(cs, uni, stored, out, hist, ('validated' if validated else 'unvalidated') +
                                          (', balances read at %s between arrivals' % lookups if lookups else '') +
                                          (', newest block queried first' if not validated else ''), reverse=not validated)
            # also query every intermediate snapshot at its own head, then add one more block on top of the final
            # state and re-take all fingerprints
            for s, n in zip(snaps, stored):
                try:
                    s.public_key_balances_by_hash[n.bid]
                except Exception:
                    pass
            extra = uni.get(fc.head().path + ('e',))
            try:
                cs.add_block_no_validation(extra.block)
            except Exception as e:
                out.append(('valid-block-refused', "empty block on the head refused: %r" % (e,), hist))
            after = [ledger.fingerprint(s, balances=False) for s in snaps]
            stats['snapshots'] += len(snaps)
            if before != after:
                i = [a != b for a, b in zip(before, after)].index(True)
                out.append(('snapshot-changed', "chain-state snapshot taken after %d blocks changed when later blocks "
                            "were added" % i, hist))
            # head-level observations
            hd = fc.head()
            exp_bal = sum(v for (v, pk) in hd.utxo.values() if pk in (K[0].pub, K[1].pub))
            try:
                got_bal = wallet.get_balance(cs)
            except Exception as e:
                got_bal = 'raises %r' % (e,)
            if cs.current_chain_hash == hd.bid and got_bal != exp_bal:
                out.append(('wallet-balance', "Wallet.get_balance = %s, unspent outputs paying its keys sum to %s" % (
                    got_bal, exp_bal), hist))
            pb = {}
            for n in stored:
                try:
                    u = ledger.utxo_view(cs.unspent_transaction_outs_by_hash[n.bid])
                    b = {pk.public_key: (x.value, {(r.hash, r.index) for r in x.output_references})
                         for pk, x in cs.public_key_balances_by_hash[n.bid].items() if x.value or x.output_references}
                    pb[n.path] = view_digest(u, b)
                except Exception:
                    pb[n.path] = None
            if per_block is not None and per_block != pb:
                out.append(('entrypoint-differential', "validated and unvalidated add give different per-block views",
                            hist))
            per_block = pb
        # order differential: another parent-first order of the same block set
        alt = tuple(sorted(hist, key=lambda p: (len(p), tuple(reversed([str(x) for x in p])))))
        alt = tuple(sorted(alt, key=len))
        if alt != tuple(hist):
            stats['orders'] += 1
            try:
                cs2, fc2 = ledger.build(uni, alt, now, True)
                for n in stored:
                    u = ledger.utxo_view(cs2.unspent_transaction_outs_by_hash[n.bid])
                    b = {pk.public_key: (x.value, {(r.hash, r.index) for r in x.output_references})
                         for pk, x in cs2.public_key_balances_by_hash[n.bid].items() if x.value or x.output_references}
                    if per_block is not None and view_digest(u, b) != per_block[n.path]:
                        out.append(('order-differential', "per-block view at %s depends on arrival order" % (n.path,),
                                    hist))
                        break
            except Exception as e:
                out.append(('valid-block-refused', "alternative order refused: %r" % (e,), list(alt)))
        if len(out) > 30:
            break
    return stats, out[:30]


def _worker_q(hists):
    return _worker(hists, quick_modes=True)


def run(ctx):
    ledger.setup()
    uni = ledger.tx_universe('easy')
    depth = 4 if ctx.quick else 5
    levels = ledger.enumerate_histories(uni, PREFIX, LABELS, depth)
    levels2 = ledger.enumerate_histories(uni, PREFIX, LABELS2, depth - 1)
    hists = [h for lv in levels for h in lv]
    have = set(hists)
    hists += [h for lv in levels2 for h in lv if h not in have]
    have = set(hists)
    levels3 = ledger.enumerate_histories(uni, PREFIX, LABELS3, depth - 1)
    hists += [h for lv in levels3 for h in lv if h not in have]
    have = set(hists)
    levels4 = ledger.enumerate_histories(uni, PREFIX, LABELS4, depth - 1)
    hists += [h for lv in levels4 for h in lv if h not in have]
    # long chains (persistent maps change their layout beyond 32 entries): 36 funding blocks, then the split, spends of early
    # outputs, a side branch off height 20 that overtakes or not
    base = tuple(('f',) * k for k in range(1, 37))
    tail = (base[-1] + ('s',), base[-1] + ('s', 'a'), base[-1] + ('s', 'a', 'c'), base[-1] + ('s', 'a', 'c', 'i'))
    side = tuple(base[19] + ('e',) * k for k in range(1, 4))
    longs = [base + tail, base + tail[:2] + side + tail[2:], base[:20] + side[:2] + base[20:] + tail]
    hists += [h for h in longs if all(uni.get(p) is not None for p in h)]
    ctx.log("histories per level", [len(l) for l in levels], "second menu", [len(l) for l in levels2])
    if ctx.seed:
        import random
        random.Random(ctx.seed).shuffle(hists)
    # the schedule dimension: two threads asking one chain state for balances (the miner's and the networking thread both
    # read the state the chain manager hands out; the explorer command does so while the node runs)
    from .. import thrscen
    ctx.cov['thread_schedules'] = thrscen.run(ctx, 'C03', 2 if ctx.quick else 3)
    nchunk = ctx.ncpu * 8
    chunks = [hists[i::nchunk] for i in range(nchunk)]
    res = ctx.pmap(_worker_q if ctx.quick else _worker, [c for c in chunks if c])
    tot = {}
    for st, out in res:
        for k, v in st.items():
            tot[k] = tot.get(k, 0) + v
        for key, what, hist in out:
            if key == 'valid-block-refused':
                # not what C03 states (it would make the check vacuous, not the property false)
                ctx.add('valid_blocks_refused')
                if len(ctx.notes) < 3:
                    ctx.notes.append("vacuity: %s; history %s" % (what, ledger.hist_str(hist)))
                continue
            ctx.violation('ledger-' + key, "%s; history %s" % (what, ledger.hist_str(hist)),
                          {'hist': [list(p) for p in hist]})
    shared = sum(1 for h in hists if len({uni.get(p).block.transactions[1].hash() for p in h
                                          if len(uni.get(p).block.transactions) > 1}) <
                 sum(1 for p in h if len(uni.get(p).block.transactions) > 1))
    ctx.cov.update({
        'states': tot.get('states', 0), 'transitions': tot.get('transitions', 0),
        'traces_validated_against_impl': tot.get('views', 0),
        'samples': [ledger.hist_str(levels[-1][0]), ledger.hist_str(levels[-1][len(levels[-1]) // 2])],
        'histories_per_depth': [len(l) for l in levels], 'snapshots_rechecked': tot.get('snapshots', 0),
        'alternative_orders': tot.get('orders', 0), 'histories_with_same_tx_on_two_forks': shared,
        'exhaustive': True, 'bounds': {'blocks_beyond_prefix': depth, 'labels': list(LABELS),
                                       'second_menu': {'labels': list(LABELS2), 'blocks_beyond_prefix': depth - 1},
                                       'third_menu': {'labels': list(LABELS3), 'blocks_beyond_prefix': depth - 1},
                                       'fourth_menu': {'labels': list(LABELS4), 'blocks_beyond_prefix': depth - 1},
                                       'long_chains': '3 histories of 40-43 blocks (36 funding blocks, split, spends of early outputs, side branch off height 20)'},
        'rule': "BFS over arrival histories (any stored parent x payload menu), de-duplicated on (stored set, head); "
                "each kept history is driven through add_block and add_block_no_validation; every stored block's "
                "unspent set and balances are compared with the reference replay (traces_validated = per-block view "
                "comparisons)",
    })


def replay(data, ctx):
    if 'thread_scenario' in data:
        from .. import thrscen
        return thrscen.replay(data)
    hist = tuple(tuple(p) for p in data['hist'])
    st, out = _worker([hist])
    return [('ledger-' + k, w) for k, w, _ in out if k != 'valid-block-refused']
