"""C07 - canonical identity: round trips over value grids; exhaustive byte-level enumeration of decoder inputs
(all short VLQ strings, every byte x position substitution of sample encodings, redundant-prefix insertion,
trailing data); id = sha256d(canonical encoding) for objects from bytes, from the store and built in memory."""
import io
import itertools
import os
import struct
from ipaddress import IPv6Address

from .. import enc, ledger, thrscen, world
from ..world import K

LEVEL = 'exploration'


# ------------------------------------------------------------------------------------------------ helpers

def fields(x):
    """deep, __eq__-free view of a value (BlockSummary.__eq__ and CoinbaseData.__eq__ ignore the height)"""
    if isinstance(x, (bytes, int, str, bool)) or x is None:
        return x
    if isinstance(x, (list, tuple)):
        return tuple(fields(e) for e in x)
    if isinstance(x, IPv6Address):
        return ('ip', int(x))
    if hasattr(x, '__dict__'):
        return (type(x).__name__,) + tuple((k, fields(v)) for k, v in sorted(vars(x).items()) if k != 'cached_hash')
    return repr(x)


def consensus_types():
    from skepticoin import datatypes as D
    return {'OutputReference': D.OutputReference, 'Input': D.Input, 'Output': D.Output, 'Transaction': D.Transaction,
            'PowEvidence': D.PowEvidence, 'BlockSummary': D.BlockSummary, 'BlockHeader': D.BlockHeader, 'Block': D.Block}


def id_of(tname, obj):
    """the id the node assigns, and sha256d of the canonical encoding it should equal"""
    if tname == 'Block':
        return obj.hash(), enc.sha256d(obj.header.serialize())
    if tname in ('Transaction', 'BlockHeader', 'BlockSummary'):
        return obj.hash(), enc.sha256d(obj.serialize())
    return None, None


def decode_check(tname, cls, data):
    """returns (status, detail): status in {'undecodable', 'ok', 'reencode', 'id'}"""
    f = io.BytesIO(data)
    try:
        obj = cls.stream_deserialize(f)
    except Exception:
        return 'undecodable', None
    used = f.tell()
    try:
        again = obj.serialize()
    except Exception as e:
        return 'reencode', 'decoded object cannot be encoded: %r' % (e,)
    if again != data[:used]:
        return 'reencode', 'consumed %s.. re-encodes to %s..' % (data[:used].hex()[:40], again.hex()[:40])
    got, exp = id_of(tname, obj)
    if got != exp:
        return 'id', 'id %s != sha256d(canonical encoding) %s' % (got.hex()[:16], exp.hex()[:16])
    return 'ok', used


# ------------------------------------------------------------------------------------------------ family 1

def grid_values():
    """yield (type name, object) over boundary-value grids"""
    from skepticoin import datatypes as D
    from skepticoin.signing import CoinbaseData, SECP256k1PublicKey, SECP256k1Signature, SignableEquivalent
    from skepticoin.networking import messages as M
    H = [bytes([i]) * 32 for i in (0, 1, 0x7f, 0x80, 0xff)]
    vlq_edges = sorted({0, 1, 63, 64, 127, 128, 129, 255, 256, 8191, 8192, 16383, 16384, 16385, 2**21 - 1, 2**21,
                        2**28 - 1, 2**28, 2**32 - 1, 2**32, 2**35 - 1, 2**35, 2**42, 2**49 - 1, 2**49, 2**63, 2**64})
    idx = [0, 1, 255, 256, 2**31, 2**32 - 1]
    vals = [0, 1, 2**32, 2**63, 2**64 - 1, 2_099_999_986_350_000]
    pks = [SECP256k1PublicKey(bytes([i]) * 64) for i in (0, 0xff)] + [K[0].pk]
    sigs = [SignableEquivalent(), CoinbaseData(0, b''), CoinbaseData(1, b'x'), CoinbaseData(2**32 - 1, b'y' * 200),
            CoinbaseData(300, bytes(range(255))), SECP256k1Signature(b'\x00' * 64), SECP256k1Signature(b'\xff' * 64)]
    for h in H:
        for i in idx:
            yield 'OutputReference', D.OutputReference(h, i)
    refs = [D.OutputReference(H[0], 0), D.OutputReference(H[4], 2**32 - 1)]
    inputs = [D.Input(r, s) for r in refs for s in sigs]
    for i in inputs:
        yield 'Input', i
    outputs = [D.Output(v, p) for v in vals for p in pks]
    for o in outputs:
        yield 'Output', o
    for ni in range(0, 3):
        for no in range(0, 3):
            for ins in itertools.islice(itertools.combinations(inputs, ni), 0, None, 7):
                for outs in itertools.islice(itertools.combinations(outputs, no), 0, None, 11):
                    yield 'Transaction', D.Transaction(list(ins), list(outs))
    # long lists crossing VLQ width boundaries of the element count
    for cnt in (63, 64, 127, 128, 129):
        yield 'Transaction', D.Transaction([inputs[0]] * cnt, [outputs[0]] * (cnt + 1))
    yield 'PowEvidence', D.PowEvidence(H[1], H[2], H[3])
    yield 'PowEvidence', D.PowEvidence(H[4], H[0], H[4])
    sums = []
    for ht in vlq_edges:
        for ts in (0, 1, 2**32 - 1):
            for tg in (H[0], H[4]):
                for nonce in (0, 2**32 - 1):
                    s = D.BlockSummary(ht, H[1], H[2], ts, tg, nonce)
                    sums.append(s)
                    yield 'BlockSummary', s
    hdrs = [D.BlockHeader(s, D.PowEvidence(H[1], H[2], H[3])) for s in sums[::5]]
    for h in hdrs:
        yield 'BlockHeader', h
    txs = [D.Transaction([inputs[1]], [outputs[0]]), D.Transaction([inputs[5], inputs[6]], [outputs[3], outputs[4], outputs[5]]),
           D.Transaction([], [])]
    for h in hdrs[::3]:
        for nt in range(0, 4):
            yield 'Block', D.Block(h, (txs * 2)[:nt])
    yield 'Block', D.Block(hdrs[0], [txs[0]] * 130)
    # ---- wire messages
    ips = [IPv6Address(0), IPv6Address(2**128 - 1), IPv6Address('::ffff:1.2.3.4')]
    for ts, i, r, c in itertools.product((0, 2**32 - 1), (0, 1, 2**32 - 1), (0, 7, 2**32 - 1), (0, 2**64 - 1)):
        yield 'MessageHeader', M.MessageHeader(ts, i, r, c)
    for v in (0, 1, 255):
        yield 'SupportedVersion', M.SupportedVersion(v)
    for ip, port, nonce, ua, sv in itertools.product(ips, (0, 2412, 65535), (0, 2**32 - 1), (b'', b'sashimi 0.1', b'u' * 255),
                                                     ([], [M.SupportedVersion(0)], [M.SupportedVersion(i) for i in range(3)])):
        yield 'Message', M.HelloMessage(sv, ip, port, ips[0], 65535 - port, nonce, ua)
    for n in (0, 1, 3, 63, 64, 70, 127, 128, 255, 256, 499, 500, 501, 999, 1000, 1001, 8191, 8192, 16383, 16384):
        yield 'Message', M.GetBlocksMessage([H[i % 5] for i in range(n)], H[n % 5])
        yield 'Message', M.InventoryMessage([M.InventoryItem(M.DATA_BLOCK if i % 2 else M.DATA_TRANSACTION, H[i % 5]) for i in range(n)])
        yield 'Message', M.PeersMessage([M.Peer((i * 2**31) % 2**32, ips[i % 3], (i * 9973) % 65536) for i in range(n)])
    for dt in (M.DATA_BLOCK, M.DATA_HEADER, M.DATA_TRANSACTION):
        for h in H[:3]:
            yield 'Message', M.GetDataMessage(dt, h)
    yield 'Message', M.GetPeersMessage()
    yield 'InventoryItem', M.InventoryItem(M.DATA_BLOCK, H[2])
    yield 'Peer', M.Peer(2**32 - 1, ips[1], 65535)
    for t in txs[:2]:
        yield 'Message', M.DataMessage(M.DATA_TRANSACTION, t)
    for h in hdrs[:4]:
        yield 'Message', M.DataMessage(M.DATA_HEADER, h)
        yield 'Message', M.DataMessage(M.DATA_BLOCK, D.Block(h, txs[:2]))


def all_types():
    from skepticoin.networking import messages as M
    t = dict(consensus_types())
    t.update({'MessageHeader': M.MessageHeader, 'SupportedVersion': M.SupportedVersion, 'Message': M.Message,
              'InventoryItem': M.InventoryItem, 'Peer': M.Peer})
    return t


def family1(ctx):
    T = all_types()
    n = 0
    kinds = set()
    for tname, obj in grid_values():
        n += 1
        kinds.add((tname, type(obj).__name__))
        try:
            b = obj.serialize()
            f = io.BytesIO(b + b'\xaa\xbb')
            back = T[tname].stream_deserialize(f)
            used = f.tell()
            problem = None
            if fields(back) != fields(obj):
                problem = 'decoded value differs field-wise'
            elif used != len(b):
                problem = 'decoder consumed %d of %d bytes' % (used, len(b))
            elif back.serialize() != b:
                problem = 're-encoding differs'
            else:
                got, exp = id_of(tname, back)
                got2, exp2 = id_of(tname, obj)
                if got != exp or got2 != exp2 or got != got2:
                    problem = 'id differs between built-in-memory / decoded / sha256d(encoding)'
        except Exception as e:
            problem = 'raises %r' % (e,)
        if problem:
            ctx.violation('roundtrip-%s' % tname, "%s %s: %s" % (tname, type(obj).__name__, problem),
                          {'fam': 1, 'index': n})
    return n, len(kinds)


# ------------------------------------------------------------------------------------------------ family 2a

def _vlq_worker(arg):
    """all byte strings with the given first byte and length <= L offered to the VLQ decoder"""
    from skepticoin.serialization import stream_deserialize_vlq, stream_serialize_vlq
    first, L = arg
    n = 0
    bad = []
    accepted = 0
    for ln in range(1, L + 1):
        for rest in itertools.product(range(256), repeat=ln - 1):
            b = bytes((first,) + rest)
            n += 1
            f = io.BytesIO(b)
            try:
                v = stream_deserialize_vlq(f)
            except Exception:
                continue
            used = f.tell()
            if used != ln:
                continue        # a shorter prefix decoded: that prefix is enumerated on its own
            accepted += 1
            g = io.BytesIO()
            try:
                stream_serialize_vlq(g, v)
                again = g.getvalue()
            except Exception:
                again = None
            if again != b and len(bad) < 3:
                bad.append((b.hex(), v, again.hex() if again is not None else None))
    return n, accepted, bad


# ------------------------------------------------------------------------------------------------ samples

def sample_encodings(ctx):
    """canonical encodings (produced by the implementation's own encoder) of real, valid objects"""
    ledger.setup()
    uni = ledger.tx_universe('easy')
    paths = [('f',), ('f', 's'), ('f', 's', 'a'), ('f', 's', 'd'), ('f', 's', 'c')]
    if not ctx.quick:
        paths += [('f', 's', 'a', 'd'), ('f', 's', 'b'), ('f', 's', 'a', 'e'), ('f', 's', 'e', 'd')]
    out = []
    seen = set()
    for p in paths:
        b = uni.get(p).block
        out.append(('Block', b.serialize()))
        for t in b.transactions:
            tb = t.serialize()
            if tb not in seen:
                seen.add(tb)
                out.append(('Transaction', tb))
    b = uni.get(('f', 's', 'd')).block
    out.append(('BlockHeader', b.header.serialize()))
    out.append(('BlockSummary', b.header.summary.serialize()))
    out.append(('PowEvidence', b.header.pow_evidence.serialize()))
    t = b.transactions[1]
    out.append(('Input', t.inputs[0].serialize()))
    out.append(('Output', t.outputs[0].serialize()))
    out.append(('OutputReference', t.inputs[0].output_reference.serialize()))
    # heights on both sides of VLQ width boundaries, reward data lengths 0 / 1 / 200
    from skepticoin.datatypes import Block, BlockHeader, BlockSummary
    for ht, data in ((63, b''), (64, b'x'), (127, b'd' * 200), (128, b''), (16383, b'z'), (16384, b''), (2**21, b'')):
        cb = world.coinbase_tx(ht, [(5, K[1]), (6, K[2])], data)
        s = b.header.summary
        blk = Block(BlockHeader(BlockSummary(ht, s.previous_block_hash, s.merkle_root_hash, s.timestamp, s.target, s.nonce),
                                b.header.pow_evidence), [cb] + list(b.transactions[1:2]))
        out.append(('Block', blk.serialize()))
    return out


def vlq_sites(tname, data):
    """offsets of VLQ fields inside a canonical encoding (found by parsing with the reference layout)"""
    sites = []

    def tx(pos):
        pos += 1
        sites.append(pos)
        n, pos = enc.vlq_decode_ref(data, pos)
        for _ in range(n):
            pos += 36
            tag = data[pos]
            pos += 1
            if tag == 1:
                pos += 4
                ln = data[pos]
                pos += 1 + ln
            elif tag == 2:
                pos += 64
        sites.append(pos)
        n, pos = enc.vlq_decode_ref(data, pos)
        pos += n * (8 + 65)
        return pos
    if tname == 'Transaction':
        tx(0)
    elif tname == 'BlockSummary':
        sites.append(0)
    elif tname == 'BlockHeader':
        sites.append(1)
    elif tname == 'Block':
        sites.append(1)
        h, pos = enc.vlq_decode_ref(data, 1)
        pos += 32 + 32 + 4 + 32 + 4 + 96
        sites.append(pos)
        n, pos = enc.vlq_decode_ref(data, pos)
        for _ in range(n):
            pos = tx(pos)
    return sites


def _subst_worker(arg):
    """family 2b/2c/2d for one sample"""
    tname, data = arg
    cls = consensus_types()[tname]
    st = {'evaluations': 0, 'decoded': 0, 'distinct': 0}
    bad = []

    def offer(kind, mutant, desc):
        st['evaluations'] += 1
        status, detail = decode_check(tname, cls, mutant)
        if status == 'undecodable':
            return
        st['decoded'] += 1
        if status in ('reencode', 'id') and len(bad) < 6:
            bad.append(('%s-%s' % (status, kind), tname, desc, detail, mutant.hex() if len(mutant) < 2000 else None))
    # 2b: every position x every byte value
    ba = bytearray(data)
    for p in range(len(data)):
        orig = ba[p]
        for v in range(256):
            if v == orig:
                continue
            ba[p] = v
            offer('subst', bytes(ba), 'byte %d := %02x' % (p, v))
        ba[p] = orig
    # 2c: redundant continuation bytes in front of every VLQ field
    try:
        sites = vlq_sites(tname, data)
    except Exception:
        sites = []
    for s in sites:
        for j in range(1, 9):
            offer('vlq-prefix', data[:s] + b'\x80' * j + data[s:], '%d x 0x80 inserted before VLQ at %d' % (j, s))
    # 2d: trailing data must not be consumed
    for tail in (b'\x00', b'\x80', b'\xff\xff\xff'):
        st['evaluations'] += 1
        f = io.BytesIO(data + tail)
        try:
            o = cls.stream_deserialize(f)
            if f.tell() != len(data) and len(bad) < 6:
                bad.append(('trailing', tname, 'trailing %s' % tail.hex(), 'consumed %d of %d' % (f.tell(), len(data)), None))
            elif o.serialize() != data and len(bad) < 6:
                bad.append(('trailing', tname, 'trailing %s' % tail.hex(), 'the object decoded from a stream that continues after it '
                            're-encodes to %d bytes, %d were consumed' % (len(o.serialize()), len(data)), None))
        except Exception as e:
            if len(bad) < 6:
                bad.append(('trailing', tname, 'trailing %s' % tail.hex(), 'canonical encoding + trailing data raises %r' % (e,), None))
    # the unmodified sample itself
    status, detail = decode_check(tname, cls, data)
    if status != 'ok' and len(bad) < 6:
        bad.append(('sample-' + status, tname, 'unmodified canonical sample', detail, data.hex()[:2000]))
    st['distinct'] = st['decoded']
    return st, bad, len(sites)


# ------------------------------------------------------------------------------------------------ family 2e (tagged fields)

def _reform_worker(arg):
    """family 2e: the two tagged fields of a one-input one-output transaction (signature, public key: a type byte followed
    by 64 bytes) re-formed: every type byte value x {no lead byte, lead byte 00..04} x every prefix and every suffix of the
    field's bytes (length 0..64) in place of the 64 bytes - alternative (shorter / compressed / differently tagged) forms
    of the same key or signature must not decode, or must re-encode to exactly what was consumed"""
    which, tags = arg
    from skepticoin.datatypes import Transaction
    tx = world.mk_tx([(world.ref(bytes([7]) * 32, 1), K[0])], [(5, K[1])])
    data = tx.serialize()
    field = tx.inputs[0].signature.signature if which == 'signature' else K[1].pub
    off = data.index(field) - 1
    if len(field) != 64 or off < 0:
        from ..seams import HarnessError
        raise HarnessError("tagged field not found in the sample encoding")
    st = {'evaluations': 0, 'decoded': 0}
    bad = []
    leads = [b''] + [bytes([v]) for v in range(5)]
    for tag in tags:
        for lead in leads:
            for L in range(0, 65):
                for part in ({field[:L], field[64 - L:]} if 0 < L < 64 else {field[:L]}):
                    mutant = data[:off] + bytes([tag]) + lead + part + data[off + 65:]
                    if mutant == data:
                        continue
                    st['evaluations'] += 1
                    status, detail = decode_check('Transaction', Transaction, mutant)
                    if status == 'undecodable':
                        continue
                    st['decoded'] += 1
                    if status in ('reencode', 'id') and len(bad) < 4:
                        bad.append(('%s-reformed-field' % status, 'Transaction', "%s field re-formed as type byte %02x + %s%d of its "
                                    "bytes" % (which, tag, ('lead byte %s + ' % lead.hex()) if lead else '', L), detail, mutant.hex()))
    return st, bad, 0


# ------------------------------------------------------------------------------------------------ family 4 (derived objects)

def derived_ids():
    """objects DERIVED by the library from objects that came from bytes (and therefore carry an id cached from those
    bytes): the signed form of an unsigned transaction, the signable equivalent of a signed one, a block rebuilt around a
    decoded header / transaction list.  Each derived value's id must be the double SHA-256 of its own canonical encoding"""
    from skepticoin.datatypes import Block, BlockHeader, Input, Transaction
    from skepticoin.signing import SignableEquivalent
    from skepticoin.wallet import Wallet, sign_transaction
    ledger.setup()
    uni = ledger.tx_universe('easy')
    H = uni.get(('f', 's'))
    bad = []
    n = 0

    def chk(what, obj, kind):
        nonlocal n
        n += 1
        try:
            got, exp = id_of(kind, obj)
            again = type(obj).deserialize(obj.serialize())
            got2, _ = id_of(kind, again)
        except Exception as e:
            bad.append(('derived-id-' + kind, "%s: raises %r" % (what, e)))
            return
        if got != exp or got2 != exp:
            bad.append(('derived-id-' + kind, "%s: id %s, double SHA-256 of its canonical encoding %s" % (what, got.hex()[:16], exp.hex()[:16])))
    wal = Wallet({K[0].pub: K[0].priv, K[1].pub: K[1].priv}, [], {})
    from skepticoin.datatypes import OutputReference, Output
    from skepticoin.signing import SECP256k1PublicKey
    utxo = {OutputReference(r[0], r[1]): Output(v, SECP256k1PublicKey(pk)) for r, (v, pk) in H.utxo.items()}
    for lab in ('a', 'c', 'i'):
        r = ledger.tx_payload(H, lab)
        if r is None:
            continue
        signed = r[0][0]
        unsigned = Transaction([Input(i.output_reference, SignableEquivalent()) for i in signed.inputs], list(signed.outputs))
        for src_name, src in (('built in memory', unsigned), ('decoded from bytes', Transaction.deserialize(unsigned.serialize()))):
            try:
                s2 = sign_transaction(wal, utxo, src)
            except Exception as e:
                bad.append(('derived-id-Transaction', "sign_transaction on an unsigned transaction %s raises %r" % (src_name, e)))
                continue
            chk("transaction '%s' signed by the wallet from an unsigned form %s" % (lab, src_name), s2, 'Transaction')
        dec = Transaction.deserialize(signed.serialize())
        chk("signable equivalent of transaction '%s' decoded from bytes" % lab, dec.signable_equivalent(), 'Transaction')
    for pth in (('f', 's', 'a'), ('f', 's', 'd')):
        b = Block.deserialize(uni.get(pth).block.serialize())
        chk("block rebuilt from a decoded block's header and transactions", Block(BlockHeader(b.header.summary, b.header.pow_evidence),
                                                                                  list(b.transactions)), 'Block')
        chk("block with one transaction fewer around the decoded header", Block(b.header, list(b.transactions[:1])), 'Block')
    return n, bad


# ------------------------------------------------------------------------------------------------ family 3 (store)

def store_ids(ctx):
    from skepticoin.blockstore import BlockStore
    ledger.setup()
    uni = ledger.tx_universe('genesis')
    import contextlib
    lin = [('f',), ('f', 's'), ('f', 's', 'a'), ('f', 's', 'a', 'c'), ('f', 's', 'a', 'c', 'e')]
    # competing blocks that carry the SAME transaction ('d' = the transactions of 'a' and of 'c'), written in either order
    fork1 = [('f',), ('f', 's'), ('f', 's', 'a'), ('f', 's', 'd'), ('f', 's', 'c')]
    fork2 = [('f',), ('f', 's'), ('f', 's', 'd'), ('f', 's', 'c'), ('f', 's', 'a'), ('f', 's', 'a', 'c')]
    n = 0
    for name, paths, per_block in (('linear', lin, False), ('linear', lin, True), ('fork', fork1, False), ('fork', fork1, True),
                                   ('fork', fork2, True), ('fork', fork2, False)):
        path = os.path.join(os.getcwd(), 'c07-store.db')
        if os.path.exists(path):
            os.remove(path)
        with contextlib.redirect_stdout(io.StringIO()):
            st = BlockStore(path)
        how = "%s history %s, %s" % (name, ['/'.join(p) for p in paths], 'one flush per block' if per_block else 'one flush')
        written = {enc.txid(t) for t in uni.root.block.transactions}      # (a fresh store holds the genesis block)
        try:
            for p in paths:
                nd = uni.get(p)
                if nd is None:
                    continue
                written.add(nd.bid)
                written.update(enc.txid(t) for t in nd.block.transactions)
                st.add_block_to_buffer(nd.block)
                if per_block:
                    st.flush_blocks_to_disk()
            st.flush_blocks_to_disk()
            st.close()
            with contextlib.redirect_stdout(io.StringIO()):
                st = BlockStore(path)
            for b in st.read_blocks_from_disk():
                n += 1
                if b.hash() != enc.sha256d(b.header.serialize()):
                    ctx.violation('store-block-id', "block read from the store has id %s, its header hashes to %s (%s)" % (
                        b.hash().hex()[:16], enc.sha256d(b.header.serialize()).hex()[:16], how), {'fam': 3})
                for t in b.transactions:
                    n += 1
                    if t.hash() != enc.sha256d(t.serialize()):
                        ctx.violation('store-tx-id', "transaction read from the store has an id that is not the hash of its "
                                      "encoding (%s)" % how, {'fam': 3})
                    elif t.hash() not in written:
                        ctx.violation('store-tx-id', "transaction read from the store has an id nothing written had (%s)" % how,
                                      {'fam': 3})
            st.close()
        finally:
            os.remove(path)
    return n


def run(ctx):
    n1, kinds = family1(ctx)
    L = 2 if ctx.quick else 3
    res = ctx.pmap(_vlq_worker, [(f, L) for f in range(256)])
    n2a = sum(r[0] for r in res)
    acc2a = sum(r[1] for r in res)
    for r in res:
        for hx, v, again in r[2]:
            ctx.violation('noncanonical-vlq', "VLQ decoder accepts %s as %d, which the encoder writes as %s" % (hx, v, again),
                          {'fam': '2a', 'bytes': hx})
    samples = sample_encodings(ctx)
    if ctx.seed:
        import random
        random.Random(ctx.seed).shuffle(samples)
    res = ctx.pmap(_subst_worker, samples)
    n2 = sum(r[0]['evaluations'] for r in res)
    dec = sum(r[0]['decoded'] for r in res)
    sites = sum(r[2] for r in res)
    for st, bad, _ in res:
        for key, tname, desc, detail, hx in bad:
            ctx.violation('%s-%s' % (key, tname), "%s (%s): %s" % (tname, desc, detail), {'fam': '2', 'type': tname, 'bytes': hx})
    res = ctx.pmap(_reform_worker, [(w, list(range(t, t + 16))) for w in ('signature', 'public key') for t in range(0, 256, 16)])
    n2e = sum(r[0]['evaluations'] for r in res)
    dec2e = sum(r[0]['decoded'] for r in res)
    for st, bad, _ in res:
        for key, tname, desc, detail, hx in bad:
            ctx.violation('%s-%s' % (key, tname), "%s (%s): %s" % (tname, desc, detail), {'fam': '2', 'type': tname, 'bytes': hx})
    n2 += n2e
    dec += dec2e
    ctx.cov['reformed_field_mutants'] = n2e
    n3 = store_ids(ctx)
    n4, bad4 = derived_ids()
    n3 += n4
    for key, what in bad4:
        ctx.violation(key, what, {'fam': '4'})
    # ---- ids and encodings of values built in memory while another thread encodes / hashes
    thr = thrscen.run(ctx, 'C07', 1 if ctx.quick else 2)
    ctx.cov['thread_schedules'] = thr
    ctx.cov.update({
        'evaluations': n1 + n2a + n2 + n3, 'distinct_nontrivial': acc2a + dec + kinds,
        'rule': "family 1: %d grid values (encode->decode, field-wise equality, exact consumption, ids); family 2a: all %d byte "
                "strings of length <= %d to the VLQ decoder (%d accepted as complete encodings); family 2b-d: %d sample encodings "
                "x every byte position x every byte value, 1..8 redundant 0x80 bytes before each of %d VLQ fields, trailing "
                "data, and the signature / public-key field re-formed under every type byte with every prefix / suffix of its bytes (%d mutants decoded and were re-encoded/id-checked); family 3: %d objects read back from a BlockStore. "
                "distinct_nontrivial = inputs that decoded" % (n1, n2a, L, acc2a, len(samples), sites, dec, n3),
        'samples': [{'vlq': '8005'}, {'type': samples[0][0], 'len': len(samples[0][1])}],
        'exhaustive': True, 'grid_values': n1, 'vlq_strings': n2a, 'substitution_mutants': n2, 'mutants_decoded': dec,
    })
    ctx.assumptions.append("'canonical' = what the node's encoder emits (127 -> 80 7f); minimality in the textbook sense is "
                           "not demanded")


def replay(data, ctx):
    if 'thread_scenario' in data:
        return thrscen.replay(data)
    if data.get('fam') == '4':
        return derived_ids()[1]
    out = []
    if data['fam'] == '2a':
        from skepticoin.serialization import stream_deserialize_vlq, stream_serialize_vlq
        b = bytes.fromhex(data['bytes'])
        f = io.BytesIO(b)
        try:
            v = stream_deserialize_vlq(f)
            g = io.BytesIO()
            stream_serialize_vlq(g, v)
            if f.tell() == len(b) and g.getvalue() != b:
                out.append(('noncanonical-vlq', 'accepted'))
        except Exception:
            pass
        return out
    c2 = type(ctx)(ctx.pid, 'quick', ctx.seed)
    if data['fam'] == 1:
        family1(c2)
    elif data['fam'] == 3:
        store_ids(c2)
    else:
        tname = data['type']
        if data.get('bytes'):
            b = bytes.fromhex(data['bytes'])
            status, detail = decode_check(tname, consensus_types()[tname], b)
            if status in ('reencode', 'id'):
                for kind in ('subst', 'vlq-prefix'):
                    out.append(('%s-%s-%s' % (status, kind, tname), detail))
                out.append(('sample-%s-%s' % (status, tname), detail))
            return out
        for s in sample_encodings(c2):
            if s[0] == tname:
                st, bad, _ = _subst_worker(s)
                for key, tn, desc, detail, hx in bad:
                    out.append(('%s-%s' % (key, tn), detail))
        return out
    return [(k, v['what']) for k, v in c2.violations.items()]
