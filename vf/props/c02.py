"""C02 - no inflation: reward bound, value ranges, conservation on every stored block."""
from .. import blockcheck, cands, ledger, refmodel
from . import c01

LEVEL = 'model_checking'


def cfg():
    return blockcheck.Config('C02', None, [cands.c02_candidates], refmodel.C02_TAGS, check_unchanged=False,
                             conservation=True)


def _worker(arg):
    kind, hists, both = arg
    ledger.setup()
    uni = ledger.tx_universe(kind)
    c = cfg()
    c.both_forms = both
    return blockcheck.run_histories(c, uni, hists, c01.now_for(kind)) + (kind,)


def run(ctx):
    c01.run(ctx, worker=_worker, prop='C02')
    ctx.assumptions.append("chains cannot reach a halving height (1,050,000): conservation across a halving is the "
                           "composition of this check (reward <= get_block_subsidy(h) + fees at every explored h, with "
                           "the reference's own subsidy formula) with C16 (get_block_subsidy = schedule at every h)")


def replay(data, ctx):
    return c01.replay(data, ctx, cfgf=cfg)
