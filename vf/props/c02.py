"""C02 - no inflation: reward bound, value ranges, conservation on every stored block."""
from .. import blockcheck, cands, ledger, refmodel
from . import c01

LEVEL = 'model_checking'


def cfg():
    return blockcheck.Config('C02', None, [cands.c02_candidates], refmodel.C02_TAGS, check_unchanged=False,
                             conservation=True)


REAL_HALVING = 1_050_000


def universe_for(kind):
    """'easy' / 'genesis' with the real halving interval; 'easy-halving3': interval rebound to 3 so that the explored
    chains cross two halvings (reward bound and conservation at halving heights)"""
    from .. import seams
    if kind == 'easy-halving3':
        seams.halving_interval(3)
        return ledger.tx_universe('easy')
    seams.halving_interval(REAL_HALVING)
    return ledger.tx_universe(kind)


def _worker(arg):
    kind, hists, both = arg
    ledger.setup()
    uni = universe_for(kind)
    c = cfg()
    c.both_forms = both
    return blockcheck.run_histories(c, uni, hists, c01.now_for('easy' if kind.startswith('easy') else kind)) + (kind,)


def plan(ctx):
    return [('easy', 3), ('easy-halving3', 3), ('genesis', 1)] if ctx.quick else [('easy', 4), ('easy-halving3', 4), ('genesis', 2)]


def run(ctx):
    c01.run(ctx, worker=_worker, prop='C02', plan_fn=plan, universe_fn=universe_for)
    from .. import seams
    seams.halving_interval(REAL_HALVING)
    ctx.assumptions.append("chains cannot reach the real halving height (1,050,000): halvings are crossed with the interval "
                           "rebound to 3 blocks (universe 'easy-halving3'); the real interval is pinned by C16")


def replay(data, ctx):
    from .. import seams
    ledger.setup()
    kind = data.get('uni') or 'easy'
    uni = universe_for(kind)
    try:
        return c01.replay_one(cfg(), uni, data, c01.now_for('easy' if kind.startswith('easy') else kind))
    finally:
        seams.halving_interval(REAL_HALVING)
