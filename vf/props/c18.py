"""C18 - checkpoints are enforced; the built-in genesis block and the recorded real blocks keep their ids and pass
full validation with the real scrypt.  Unpatched table, horizon and hash functions (the horizon is lowered only
for the last part, which re-validates the recorded blocks completely)."""
import hashlib
import struct
import os

from .. import enc, refmodel, seams, world
from ..world import K

LEVEL = 'exploration'
TABLE_DIGEST = '09c58a52ffced792d4f48c679c09b0c802c79c7034196fc2a479e7a05dd44c26'
HORIZON = 163000


def cand_block(height, prev, ts, target=world.EASY_TARGET, nonce=0):
    """structurally complete block with the stated height on `prev` (evidence is not looked at below the horizon)"""
    from skepticoin.datatypes import Block, BlockHeader, BlockSummary, PowEvidence
    cb = world.coinbase_tx(height, [(refmodel.subsidy(height), K[4])], b'vf')
    s = BlockSummary(height, prev, enc.txid(cb), ts, target, nonce)
    return Block(BlockHeader(s, PowEvidence(b'\x01' * 32, b'\x02' * 32, b'\x03' * 32)), [cb])


def with_id(block, bid):
    from skepticoin.datatypes import Block
    return Block(block.header, block.transactions, hash=bid)


def run(ctx):
    from skepticoin import cheating, consensus
    from skepticoin.coinstate import CoinState
    from skepticoin.datatypes import Block
    from skepticoin.genesis import genesis_block_data
    from skepticoin.humans import computer
    n = 0
    distinct = 0
    # the schedule dimension first (workers are forked; their seams - memoised real scrypt, lowered horizon - stay in them)
    if not os.environ.get('VERIF_C18_NO_THREADS'):
        from .. import thrscen
        ctx.cov['thread_schedules'] = thrscen.run(ctx, 'C18', 1 if ctx.quick else 2)
    # (re-)establish the unpatched horizon: replay runs in the same process after the last part lowered it
    consensus.MAX_KNOWN_HASH_HEIGHT = cheating.MAX_KNOWN_HASH_HEIGHT
    consensus.KNOWN_HASHES = cheating.KNOWN_HASHES

    def V(key, what, rp):
        ctx.violation(key, what, rp)

    # ---- table sanity
    T = cheating.KNOWN_HASHES
    txt = ''.join('%d:%s;' % (k, T[k]) for k in sorted(T))
    if (sorted(T) != list(range(0, HORIZON + 1, 500)) or cheating.MAX_KNOWN_HASH_HEIGHT != HORIZON or
            hashlib.sha256(txt.encode()).hexdigest() != TABLE_DIGEST or consensus.MAX_KNOWN_HASH_HEIGHT != HORIZON
            or consensus.KNOWN_HASHES is not T):
        V('table', "checkpoint table / horizon differs from the built-in one (327 entries 0,500,..,163000)", {'k': 'table'})
    zero = CoinState.zero()
    gen = Block.deserialize(genesis_block_data)
    gid = enc.sha256d(genesis_block_data[:1 + 1 + 32 + 32 + 4 + 32 + 4 + 96])
    now = 2_000_000_000
    # ---- (i) every checkpoint height: wrong id refused, right id accepted; both entry points; on a node that has only
    #      the genesis block AND on a node whose head is already far above every checkpoint (a late, competing block)
    high = zero.add_block_no_validation(cand_block(HORIZON + 37000, gid, 1_699_999_000))
    mid = zero.add_block_no_validation(cand_block(1234, gid, 1_699_999_001))
    states = [('genesis-only', zero), ('head-above-all-checkpoints', high), ('head-at-1234', mid)]
    for (sname, zero_), h in [(s_, h_) for s_ in states for h_ in sorted(T)]:
        right = bytes.fromhex(T[h])
        # the candidate's parent really is at height h - 1 (a fabricated block put into the state through the reload entry
        # point): a block below the horizon whose stated height is not its parent's plus one is refused whatever its id
        if h == 0:
            prev = b'\x00' * 32
        elif h == 1:
            prev = gid
        else:
            par = cand_block(h - 1, gid, 1_699_990_000 + h)
            zero_ = zero_.add_block_no_validation(par)
            prev = par.hash()
        blk = cand_block(h, prev, 1_700_000_000 + h)
        for entry in ('validate', 'add_block'):
            for kind, b, expect_accept in (('wrong-id', blk, False), ('right-id', with_id(blk, right), True),
                                           ('id-of-neighbour-checkpoint', with_id(blk, bytes.fromhex(T[(h + 500) % (HORIZON + 500)])), False)):
                if h == 0 and entry == 'add_block':
                    continue
                n += 1
                try:
                    if entry == 'validate':
                        consensus.validate_block_in_coinstate(b, zero_)
                    else:
                        zero_.add_block(b, now)
                    acc = True
                except Exception:
                    acc = False
                if acc != expect_accept:
                    V('checkpoint-%s-%s' % (kind, 'accepted' if acc else 'refused'),
                      "height %d via %s on a node with %s: block with %s is %s" % (h, entry, sname, kind, 'accepted' if acc else 'refused'),
                      {'k': 'cp', 'h': h})
                distinct += 1
    # ---- (ii) horizon +-1
    unk = enc.sha256d(b'unknown parent')
    p2 = cand_block(HORIZON - 2, gid, 1_699_999_990)
    p1 = cand_block(HORIZON - 1, gid, 1_699_999_991)
    zero2 = zero.add_block_no_validation(p2).add_block_no_validation(p1)
    b0 = with_id(cand_block(HORIZON, p1.hash(), 1_700_000_000), bytes.fromhex(T[HORIZON]))
    b1 = cand_block(HORIZON + 1, unk, 1_700_000_000)
    b1k = cand_block(HORIZON + 1, gid, 1_700_000_000)        # known parent, but wrong height/target/evidence
    b1m = cand_block(HORIZON - 1, p2.hash(), 1_700_000_000)  # below the horizon, not a checkpoint: not validated
    for name, b, expect in (('at-horizon-right-id', b0, True), ('above-horizon-unknown-parent', b1, False),
                            ('above-horizon-known-parent-bad-header', b1k, False), ('below-horizon-between', b1m, True)):
        n += 1
        try:
            consensus.validate_block_in_coinstate(b, zero2)
            acc = True
        except Exception:
            acc = False
        if acc != expect:
            V('horizon-' + name, "horizon: %s is %s" % (name, 'accepted' if acc else 'refused'), {'k': 'hz'})
    # ---- (iii) recorded data: ids, byte-identical re-encoding
    chain_dir = os.path.join(os.environ.get('VERIF_REPO', '/repo'), 'tests', 'testdata', 'chain')
    files = sorted(os.listdir(chain_dir))
    recorded = [(0, T[0], genesis_block_data)]
    for f in files:
        recorded.append((int(f.split('-')[0]), f.split('-')[1], open(os.path.join(chain_dir, f), 'rb').read()))
    if len(recorded) != 6:
        V('recorded-files', "expected 5 recorded blocks, found %d" % (len(recorded) - 1), {'k': 'rec'})
    blocks = []
    for h, hexid, raw in recorded:
        n += 1
        try:
            b = Block.deserialize(raw)
            ok = (b.hash().hex() == hexid and b.header.hash().hex() == hexid and enc.blockid(b).hex() == hexid and
                  b.serialize() == raw and enc.enc_block(b) == raw and b.height == h and
                  Block(b.header, b.transactions).hash().hex() == hexid)
        except Exception as e:
            ok = False
            b = None
        if not ok:
            V('recorded-id', "recorded block %d does not keep its id / encoding" % h, {'k': 'rec'})
        blocks.append(b)
    if gen.hash().hex() != T[0]:
        V('recorded-id', "genesis id is not checkpoint 0", {'k': 'rec'})
    # the chain sample behind every real block's evidence is read cyclically out of earlier real blocks: at EVERY offset of
    # every recorded block (the recorded evidence only exercises 40 of them), for slice lengths 1, 4 (the real one), 32 and
    # lengths around the block's own, the slice equals the cyclic read
    from skepticoin import pow as powmod
    nsl = 0
    for (h, hexid, raw) in recorded:
        L_ = len(raw)
        for off in range(L_):
            for base in (off, off + L_, off + 7 * L_):
                if base >= 2**32:
                    continue
                hsh = b'\x5a' * 8 + struct.pack(">I", base) + b'\xa5' * 20
                for ln in (1, 4, 32) + ((L_ - 1, L_, L_ + 3, 2 * L_ + 1) if off % 16 == L_ % 16 else ()):
                    nsl += 1
                    exp = bytes(raw[(off + i) % L_] for i in range(ln))
                    try:
                        got = powmod.select_block_slice(hsh, raw, ln)
                    except Exception as e:
                        got = repr(e)
                    if got != exp:
                        V('chain-sample-slice', "select_block_slice at offset %d of recorded block %d (%d bytes), length %d: %s, a cyclic "
                          "read gives %s" % (off, h, L_, ln, got.hex() if isinstance(got, bytes) else got, exp.hex()), {'k': 'slice'})
                        break
    n += nsl
    for hv in (1, 2, 5, 6, 499, 500, 163000, 163001, 2**32):
        for b8 in (0, 1, hv - 1, hv, hv + 1, 2**64 - 1):
            n += 1
            hsh = struct.pack(">Q", b8 % 2**64) + b'\x33' * 24
            try:
                got = powmod.select_block_height(hsh, hv)
            except Exception as e:
                got = repr(e)
            if got != (b8 % 2**64) % hv:
                V('chain-sample-height', "select_block_height(%d, %d) = %s" % (b8, hv, got), {'k': 'slice'})
    # full validation with the REAL scrypt, horizon lowered
    seams.lower_horizon()
    seams.real_pow()
    cs = CoinState.empty()
    parent = None
    for (h, hexid, raw), b in zip(recorded, blocks):
        if b is None:
            break
        n += 1
        node = None
        try:
            if h == 0:
                ev = consensus.construct_pow_evidence(CoinState.empty(), b.header.summary, 0, b.transactions)
                if ev != b.header.pow_evidence:
                    V('recorded-genesis-evidence', "genesis evidence is not reproduced by the real scrypt / blake2", {'k': 'rec'})
                consensus.validate_block_by_itself(b, b.timestamp)
                cs = cs.add_block_no_validation(b)
            else:
                cs = cs.add_block(b, b.timestamp)
        except Exception as e:
            V('recorded-block-refused', "recorded block %d fails the node's full validation: %r" % (h, e), {'k': 'rec'})
            break
        # the reference validator (own encoders, own sampler, own scrypt call) agrees: binds the model to real data
        if h == 0:
            rv = refmodel.evidence_for(b.header.summary, 0, b.transactions, None)
            e = b.header.pow_evidence
            if rv != (e.summary_hash, e.chain_sample, e.block_hash):
                V('recorded-genesis-evidence', "reference evidence differs for genesis", {'k': 'rec'})
            parent = world.Node(b, None, path=())
        else:
            tags = refmodel.validate_block(b, parent, b.timestamp)
            if tags:
                V('recorded-block-refused', "reference validator flags recorded block %d: %s" % (h, sorted(tags)), {'k': 'rec'})
            parent = world.Node(b, parent, path=(str(h),))
        distinct += 1
    # the same recorded blocks must stay valid when the node's head is on ANOTHER branch: a competing block at height 1
    # arrived first (it is added unvalidated - it is only there to be the head), then the real blocks 1..5 in order
    if all(b is not None for b in blocks):
        rival = cand_block(1, blocks[0].hash(), blocks[1].timestamp - 1, target=blocks[0].target)
        cs2 = CoinState.zero().add_block_no_validation(rival)
        for (h, hexid, raw), b in list(zip(recorded, blocks))[1:]:
            n += 1
            try:
                cs2 = cs2.add_block(b, b.timestamp)
            except Exception as e:
                V('recorded-block-refused', "recorded block %d fails full validation when a competing block at height 1 arrived "
                  "first (head on the other branch): %r" % (h, e), {'k': 'rec'})
                break
        else:
            if cs2.head().hash().hex() != recorded[-1][1]:
                V('recorded-chain-not-head', "after the recorded blocks 1..5 the head is not recorded block 5", {'k': 'rec'})
    # a wrong scrypt answer must be noticed (the evidence really is recomputed): flip one bit of block 1's evidence
    if len(blocks) > 1 and blocks[1] is not None:
        from skepticoin.datatypes import BlockHeader, PowEvidence
        b = blocks[1]
        e = b.header.pow_evidence
        for nm, ev in (('summary-hash', PowEvidence(cands_flip(e.summary_hash), e.chain_sample, e.block_hash)),
                       ('chain-sample', PowEvidence(e.summary_hash, cands_flip(e.chain_sample), e.block_hash)),
                       ('block-hash', PowEvidence(e.summary_hash, e.chain_sample, cands_flip(e.block_hash)))):
            n += 1
            bb = Block(BlockHeader(b.header.summary, ev), b.transactions)
            try:
                consensus.validate_block_in_coinstate(bb, CoinState.zero())
                V('recorded-evidence-not-checked', "recorded block 1 with altered %s passes in-state validation" % nm, {'k': 'rec'})
            except Exception:
                pass
    # refused look-alikes must leave no trace: the genuine recorded blocks still pass afterwards (same process)
    if all(b is not None for b in blocks):
        from skepticoin.datatypes import BlockHeader, BlockSummary
        cs3 = CoinState.empty().add_block_no_validation(blocks[0])
        for (h, hexid, raw), b in list(zip(recorded, blocks))[1:]:
            # ... including, right before each genuine block, copies of it that claim a wrong height (one too high, about
            # twice the chain length, far beyond it), re-mined so that the header passes the stand-alone checks: their
            # evidence reconstruction samples heights that do not exist and fails half-way
            sm = b.header.summary
            for claimed in (h + 1, 2 * h + 2, 64):
                made = 0
                cb = world.coinbase_tx(claimed, [(refmodel.subsidy(claimed), world.K[4])], data=b'vf')
                mr = enc.merkle_root([enc.txid(cb)])
                for nonce in range(1, 200000):
                    junk = Block(BlockHeader(BlockSummary(claimed, sm.previous_block_hash, mr, sm.timestamp,
                                                          sm.target, nonce), b.header.pow_evidence), [cb])
                    if junk.hash() >= junk.target:
                        continue
                    made += 1
                    n += 1
                    try:
                        cs3.add_block(junk, b.timestamp)
                        V('wrong-height-copy-accepted', "a copy of recorded block %d claiming height %d is accepted" % (h, claimed),
                          {'k': 'rec'})
                    except Exception:
                        pass
                    if made >= 2:
                        break
            n += 1
            try:
                cs3 = cs3.add_block(Block.deserialize(raw), b.timestamp)
            except Exception as e:
                V('recorded-block-refused', "recorded block %d no longer passes full validation after altered copies of recorded "
                  "blocks had been offered (and refused) in the same process: %r" % (h, e), {'k': 'rec'})
                break
    # the network's wire format at every checkpointed height (and at the heights where the height field changes width): a
    # block encoded by the check's own encoder - which reproduces the recorded real blocks byte for byte - is read by the
    # implementation, keeps the id sha256d(header bytes) and is written back identically.  (The real blocks at these heights
    # are not available offline; their FORMAT is.)
    if all(b is not None for b in blocks):
        hs = sorted(set(T.keys()) | {63, 64, 127, 128, 8191, 8192, 16383, 16384, 2097151, 2097152})
        for (hh, hexid, raw), b in zip(recorded, blocks):
            if enc.enc_block(b) != raw:
                V('recorded-id', "the check's reference encoder does not reproduce recorded block %d" % hh, {'k': 'rec'})
        for h in hs:
            n += 1
            blk = cand_block(h, blocks[0].hash(), blocks[1].timestamp, target=blocks[0].target)
            wire = enc.enc_block(blk)
            hdr = wire[:len(wire) - len(enc.enc_txlist(blk.transactions))]
            try:
                dec = Block.deserialize(wire)
                ok = dec.hash() == enc.sha256d(hdr) and dec.serialize() == wire and dec.height == h
                why = "id / bytes / height differ after decoding"
            except Exception as e:
                ok, why = False, "cannot be decoded: %r" % (e,)
            if not ok:
                V('network-format-height-%s' % ('checkpointed' if h in T else 'boundary'), "a block at height %d in the network's wire "
                  "format %s" % (h, why), {'k': 'rec'})
                break
    # a restarted node: recorded blocks 1..3 and a competing block at height 4 were written to the block store; the chain state
    # is rebuilt by the start-up loader (read_chain_from_disk); the recorded blocks 4 and 5 then arrive and must still pass
    if all(b is not None for b in blocks) and len(blocks) >= 6:
        import contextlib
        import io as _io
        from skepticoin import blockstore
        from skepticoin.scripts import utils as su
        dbp = os.path.join(os.getcwd(), 'c18-restart-%d.db' % os.getpid())
        if os.path.exists(dbp):
            os.remove(dbp)
        keep_inst = blockstore.DefaultBlockStore.instance
        try:
            with contextlib.redirect_stdout(_io.StringIO()):
                st = blockstore.BlockStore(dbp)
                rival4 = cand_block(4, blocks[3].hash(), blocks[4].timestamp - 1, target=blocks[3].target)
                for bb_ in blocks[1:4] + [rival4]:
                    st.add_block_to_buffer(bb_)
                st.flush_blocks_to_disk()
                st.close()
                st = blockstore.BlockStore(dbp)
                blockstore.DefaultBlockStore.instance = st
                csr = su.read_chain_from_disk()
            for h in (4, 5):
                n += 1
                try:
                    csr = csr.add_block(Block.deserialize(recorded[h][2]), blocks[h].timestamp)
                except Exception as e:
                    V('recorded-block-refused', "after a restart (chain state rebuilt from the block store, which also held a competing "
                      "block at height 4) recorded block %d fails full validation: %r" % (h, e), {'k': 'rec'})
                    break
            else:
                if csr.head().hash().hex() != recorded[5][1]:
                    V('recorded-chain-not-head', "after the restart the head is not recorded block 5", {'k': 'rec'})
            st.close()
        finally:
            blockstore.DefaultBlockStore.instance = keep_inst
            if os.path.exists(dbp):
                os.remove(dbp)
    # the recorded blocks as they arrive inside longer byte streams (a frame that carries a few bytes after the block, several
    # blocks in one buffer): decoded with the stream decoder, they are still the recorded blocks and validate each other
    if all(b is not None for b in blocks):
        import io
        rawsx = [raw for (h, hexid, raw) in recorded]
        for pad in (b'\x00' * 7, b''.join(rawsx[1:3])):
            try:
                objs = [Block.stream_deserialize(io.BytesIO(r + pad)) for r in rawsx]
            except Exception as e:
                V('recorded-block-refused', "a recorded block followed by %d more bytes in the stream cannot be decoded: %r" % (len(pad), e),
                  {'k': 'rec'})
                continue
            csx = CoinState.empty().add_block_no_validation(objs[0])
            for h in range(1, len(objs)):
                n += 1
                try:
                    if objs[h].hash().hex() != recorded[h][1] or objs[h].serialize() != rawsx[h]:
                        V('recorded-id', "recorded block %d decoded from a longer stream does not keep its id / bytes" % h, {'k': 'rec'})
                    csx = csx.add_block(objs[h], objs[h].timestamp)
                except Exception as e:
                    V('recorded-block-refused', "recorded block %d fails full validation when the recorded blocks were decoded from "
                      "streams carrying %d more bytes after each block: %r" % (h, len(pad), e), {'k': 'rec'})
                    break
            del csx, objs
    # the recorded chain once more on FRESH objects after the earlier ones were dropped (a node does this after a
    # roll-back and re-download): whatever the implementation remembers about block objects that no longer exist must not
    # be served for new ones.  Deserialized in a different order in every round, with k filler objects in between, k = 0..R-1.
    if all(b is not None for b in blocks):
        import gc
        R = 3 if ctx.quick else 12
        ids = seams.recycling_ids()        # id() is address-dependent: the harness owns it (dead objects' ids are reused at once)
        raws = [raw for (h, hexid, raw) in recorded]
        del cs, cs2, cs3, blocks, parent
        b = bb = junk = rival = node = None
        for k in range(R):
            gc.collect()
            ids.pick = k
            filler = [object() for _ in range(k)]
            fresh = {}
            order = list(range(len(raws)))
            order = order[::-1] if k % 2 == 0 else order[k % len(order):] + order[:k % len(order)]
            for h in order:
                fresh[h] = Block.deserialize(raws[h])
                filler.append([h] * k)
            csr = CoinState.empty().add_block_no_validation(fresh[0])
            for h in range(1, len(raws)):
                n += 1
                try:
                    csr = csr.add_block(fresh[h], fresh[h].timestamp)
                except Exception as e:
                    V('recorded-block-refused', "recorded block %d fails full validation when the recorded chain is loaded again into "
                      "fresh objects after the earlier ones were dropped (round %d): %r" % (h, k, e), {'k': 'rec'})
                    break
            del csr, fresh, filler
        ctx.cov['id_calls_by_the_code_under_test'] = ids.calls
    ctx.cov.update({
        'evaluations': n, 'distinct_nontrivial': distinct,
        'rule': "all 327 checkpoint heights x {wrong id, right id, id of the neighbouring checkpoint} x {validate_block_in_"
                "coinstate, CoinState.add_block}; horizon-1/0/+1; genesis + 5 recorded blocks: id = file name = sha256d(header), "
                "byte-identical re-encoding, full validation with real scrypt (horizon lowered), reference validator agrees",
        'samples': [{'height': 500, 'checkpoint': T.get(500)}, {'recorded': [r[1] for r in recorded]}],
        'exhaustive': True, 'checkpoints': len(T), 'recorded_blocks': len(recorded),
    })
    ctx.assumptions.append("only six recorded real blocks exist in the repository; 'right id accepted' at heights >= 500 uses "
                           "a block object carrying the checkpoint id, as the decoder/store would cache it")


def cands_flip(b):
    return bytes([b[0] ^ 1]) + b[1:]


def replay(data, ctx):
    if isinstance(data, dict) and 'thread_scenario' in data:
        from .. import thrscen
        return thrscen.replay(data)
    c2 = type(ctx)(ctx.pid, ctx.tier, ctx.seed)
    run(c2)
    return [(k, v['what']) for k, v in c2.violations.items()]
