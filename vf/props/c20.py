"""C20 - malformed input from a peer is contained to that connection.
One real node (real store, pooled transaction), an honest greeted victim connection with a half-received frame,
and an attacker connection in each protocol phase.  Mutants of a full protocol transcript are enumerated
completely by family and delivered under three fragmentations."""
import itertools
import random
import struct
from ipaddress import IPv6Address

from .. import enc, ledger, refmodel, seams, simnet, world
from ..world import K
from . import c09

LEVEL = 'fault_enumeration'
MAXLEN = 32 * 1024 * 1024
SUBST_QUICK = ('00', 'ff', 'x01', 'x80')
SUBST_ALL = ('00', '01', '7f', '80', 'ff', 'x01', 'x80')


def base_messages(w, phase):
    """one valid instance of every message type; returns list of (name, payload bytes)"""
    from skepticoin.networking import messages as M
    uni = w.uni
    H = w.fc.head()
    B1 = uni.get(H.path + ('e',))
    T1 = w.pending_other
    hdr = lambda i, rsp=0: M.MessageHeader(int(w.net.clock()), i, rsp, 777).serialize()   # noqa
    msgs = []
    if phase != 'after-greeting' and phase != 'awaiting-inventory':
        msgs.append(('hello', M.HelloMessage([M.SupportedVersion(0)], IPv6Address('::ffff:10.0.0.1'), 2412, IPv6Address(0), 2413, 424242, b'vf attacker \xff\xfe\xc0\x80')))      # (the user agent is a byte string; this one is not valid UTF-8)
    msgs += [
        ('getblocks', M.GetBlocksMessage([H.bid, w.W['base_nodes'][0].bid])),
        ('inventory', M.InventoryMessage([M.InventoryItem(M.DATA_BLOCK, enc.sha256d(b'unknown block'))])),
        ('getdata', M.GetDataMessage(M.DATA_BLOCK, H.bid)),
        ('datablock', None),
        ('datatx', M.DataMessage(M.DATA_TRANSACTION, T1)),
        ('getpeers', M.GetPeersMessage()),
        ('peers', M.PeersMessage([M.Peer(1, IPv6Address('::ffff:7.7.7.7'), 2412), M.Peer(2, IPv6Address('2001:db8::2'), 9)])),
    ]
    out = []
    for i, (nm, m) in enumerate(msgs):
        if nm == 'datablock':
            body = b'\x00\x04' + b'\x00' + b'\x00\x00' + enc.enc_block(B1.block)
        else:
            body = m.serialize()
        out.append((nm, hdr(i + 1, 5 if (nm == 'inventory' and phase == 'awaiting-inventory') else 0) + body))
    return out, B1, T1


def frame(pl, length=None, magic=b'MAJI'):
    return magic + struct.pack(">I", len(pl) if length is None else length) + pl


class AttackWorld(c09.World):
    def __init__(self, phase, same_host):
        super().__init__()
        from skepticoin.networking import messages as M
        self.phase = phase
        H = self.fc.head()
        # history before the attack: an honest peer has relayed a valid block on a side branch (a sibling of the head: fully
        # validated, stored, not head) - what the node falls back to after a rejected block must not be older than that
        sib = self.uni.get(H.parent.path + ('e',)) if H.parent is not None else None
        if sib is not None and sib.bid != H.bid:
            self.deliver_block(sib.block, sib.ts + 3000)
            if sib.bid in self.node.cm.coinstate.block_by_hash:
                self.stored[sib.path] = sib
                self.fc.add(sib)
            self.net.escaped.clear()
        # a second pending transaction for the transcript (the pool holds 'a'; this one spends another output)
        o0 = world.owned(H.utxo, K[0])
        self.pending_other = world.mk_tx([(world.oref(o0[1]), K[0])], [(H.utxo[o0[1]][0] - 3, K[2])])
        # victim: D of the base world (greeted); leave half a frame in its receiver
        self.V = self.D
        vf = self.V.frame(M.GetPeersMessage())
        self.v_rest = vf[40:]
        self.V.send_raw(vf[:40])
        self.V.received()
        self.O.received()
        # attacker connection
        self.X = simnet.Remote(self.net, self.node, host='5.5.5.5' if same_host else '8.8.8.8')
        if phase in ('after-greeting', 'awaiting-inventory'):
            self.X.hello(nonce=999, agent=b'vf \xff\xc0 attacker')
            self.node.tick()
        if phase == 'node-greeted-first':
            # the node's own greeting has gone out (first manager step after the connection exists); the peer has not greeted
            self.node.tick()
        if phase == 'awaiting-inventory':
            xpeer = self.node.peer_for(self.X.node_sock)
            self.net.rnd.chooser = lambda seq: [p for p in seq if p is xpeer][0] if any(p is xpeer for p in seq) else seq[0]
            self.net.clock.t += 1
            self.node.tick()
            self.net.rnd.chooser = None
            self.waiting = bool(xpeer is not None and xpeer.waiting_for_inventory)
        self.X.received()
        self.V.received()
        self.O.received()
        self.vpeer = self.node.peer_for(self.V.node_sock)
        self.xpeer = self.node.peer_for(self.X.node_sock)
        self.before = self.observe()

    def observe(self):
        s = self.snapshot()
        vp = self.vpeer
        return {
            'state': s['state_ids'], 'head': s['head'], 'pool': s['pool'], 'rows': s['rows'], 'buffer': s['buffer'],
            'v_connected': any(p is vp for p in self.node.nm.connected_peers.values()),
            'v_sock_open': not self.V.node_sock.closed, 'v_registered': self.V.node_sock in self.node.lp.selector.get_map(),
            'v_hello': (vp.hello_sent, vp.hello_received), 'v_buffer': bytes(vp.receiver.buffer),
            'v_recv_state': (vp.receiver.magic_read, vp.receiver.len),
            'o_alive': self.O.alive,
        }


def deliver(w, data, frag):
    X = w.X
    if frag == 'whole':
        X.send_raw(data)
    elif frag == 'first64-bytewise':
        for i in range(min(64, len(data))):
            if not X.alive:
                return
            X.send_raw(data[i:i + 1])
        if len(data) > 64 and X.alive:
            X.send_raw(data[64:])
    else:
        cut = len(data) // 2
        X.send_raw(data[:cut])
        if X.alive:
            X.send_raw(data[cut:])


def judge(w, B1, T1, close_after):
    """returns list of (key, what)"""
    bad = []
    if close_after and w.X.alive:
        w.X.close()
    # the event loop goes on: two manager steps (the second one past the first back-off interval), during which the
    # node dials whatever the attacker announced; refused / unanswered dials are then reported by the selector
    for dt in (1, 11):
        w.net.clock.t += dt
        w.node.tick()
        for s_ in list(w.net.dialling):
            w.net.complete_dial(s_)
            if s_.error is not None:
                w.node.read_event(s_)
    # ... and a third step at the next full minute (the node's periodic resynchronisation: it builds a request from its
    # by-height index of the active chain)
    w.net.clock.t += 60 - int(w.net.clock.t) % 60
    w.node.tick()
    # ... and a fourth one when every request the node has outstanding has timed out (the peers of this world never answer)
    pend = [t for t, p_ in w.node.cm.actively_fetching_blocks_from_peers]
    if pend:
        w.net.clock.t = max(w.net.clock.t, max(pend) + 1)
        w.net.clock.t += 60 - int(w.net.clock.t) % 60
        w.node.tick()
    a = w.observe()
    w.entered_by_attack = B1.bid in a['state']
    b = w.before
    if w.net.escaped:
        bad.append(('exception-escaped', "exception escaped the node's event handling: %s %s" % (w.net.escaped[0][1], w.net.escaped[0][2])))
        w.net.escaped.clear()
    for k, nm in (('v_connected', 'is no longer a connected peer'), ('v_sock_open', "'s socket was closed"),
                  ('v_registered', "'s socket is no longer registered"), ('v_hello', "'s greeting flags changed"),
                  ('v_buffer', "'s receive buffer changed"), ('v_recv_state', "'s receiver state changed")):
        if a[k] != b[k]:
            bad.append(('victim-affected', "the honest connection%s" % nm))
            break
    if not a['o_alive']:
        bad.append(('victim-affected', "another greeted connection was dropped"))
    # a peer that never greeted is out of protocol order with whatever it sends: nothing of it may take effect
    xp = getattr(w, 'xpeer', None)
    if xp is not None and not xp.hello_received and (a['state'] != b['state'] or a['pool'] != b['pool'] or a['rows'] != b['rows']):
        bad.append(('ungreeted-peer-changed-node', "data from a connection that never sent a greeting took effect (chain state %d -> %d "
                    "blocks, pool %d -> %d, store rows %d -> %d)" % (len(b['state']), len(a['state']), len(b['pool']), len(a['pool']),
                                                                     len(b['rows']), len(a['rows']))))
    # chain state: only well-formed, fully valid blocks may have entered
    new_blocks = a['state'] - b['state']
    H = w.fc.head()
    entered_valid = None
    for bid in new_blocks:
        blk = w.node.cm.coinstate.block_by_hash[bid]
        tags = refmodel.validate_block(blk, H, int(w.net.clock())) if blk.previous_block_hash == H.bid else {'parent'}
        if tags:
            bad.append(('state-changed', "a block that is not fully valid entered chain state (%s)" % sorted(tags)))
        else:
            entered_valid = world.Node(blk, H, path=('new',))
    if len(new_blocks) > 1:
        bad.append(('state-changed', "more than one block entered chain state"))
    if b['state'] - a['state']:
        bad.append(('state-changed', "blocks disappeared from chain state"))
    newH = entered_valid if entered_valid is not None else H
    if a['head'] != (newH.bid if entered_valid is not None else b['head']):
        bad.append(('state-changed', "head changed without a valid block"))
    # pool: additions must be valid and compatible; removals only of transactions invalid at the new head
    pool_txs = {enc.txid(t): t for t in w.node.cm.transaction_pool}
    used = set()
    for tid in a['pool']:
        t = pool_txs[tid]
        tags = refmodel.validate_tx(t, newH.utxo)
        refs = {refmodel.refkey(i.output_reference) for i in t.inputs}
        if tid not in b['pool'] and (tags or refs & used):
            bad.append(('pool-changed', "a transaction entered the pool that is not valid / compatible (%s)" % sorted(tags)))
        used |= refs
    for tid in b['pool']:
        if tid not in a['pool'] and not refmodel.validate_tx(w.pending, newH.utxo):
            bad.append(('pool-changed', "a still valid pending transaction was evicted"))
    # store: committed rows = chain state; nothing left in the buffer
    # (a valid block that arrives as bulk download - in_response_to != 0 - is by design buffered, not yet flushed)
    if not set(a['rows']) <= set(a['state']) or set(a['rows']) | set(a['buffer']) != set(a['state']) \
            or set(a['rows']) - set(b['rows']) - {newH.bid} or len(a['buffer']) != len(set(a['buffer'])):
        bad.append(('store-changed', "block store rows / write buffer do not match chain state (%d rows, %d in state, %d buffered)" % (
            len(a['rows']), len(a['state']), len(a['buffer']))))
    # the victim's pending frame still completes normally
    if not bad:
        w.V.send_raw(w.v_rest)
        got = [type(m).__name__ for hh, m in w.V.received()]
        if 'PeersMessage' not in got:
            bad.append(('victim-affected', "completing the honest connection's pending frame no longer gets an answer (%s)" % got))
        if w.net.escaped:
            bad.append(('exception-escaped', "exception escaped: %s" % (w.net.escaped[0],)))
    # ... and the node still serves honest peers exactly as a node that was never attacked does: the transcript's valid
    # block and transaction, delivered by the other honest connection, are accepted, stored and pooled
    if not bad and w.O.alive:
        from skepticoin.networking.messages import DataMessage, DATA_BLOCK, DATA_TRANSACTION, InventoryMessage, InventoryItem
        if B1.bid not in a['state'] and entered_valid is None:
            # first the pull path: an honest inventory naming the block must make the node ask for it
            w.O.received()
            w.O.send(InventoryMessage([InventoryItem(DATA_BLOCK, B1.bid)]), in_response_to=7)
            asked = [m for hh, m in w.O.received() if type(m).__name__ == 'GetDataMessage' and m.hash == B1.bid]
            if not asked:
                bad.append(('honest-delivery-impaired', "after the attack the node does not request a block that an honest peer "
                            "lists in its inventory"))
            w.net.clock.t = max(w.net.clock.t, B1.ts)
            w.O.send(DataMessage(DATA_BLOCK, world.from_wire(B1.block)))
            s2 = w.snapshot()
            if not w.O.alive:
                bad.append(('victim-affected', "the honest peer that delivered a valid block after the attack was dropped for it"))
            if B1.bid not in s2['state_ids'] or B1.bid not in s2['rows']:
                bad.append(('honest-delivery-impaired', "after the attack a valid block delivered by an honest peer is not accepted "
                            "and stored (in state: %s, in store: %s)" % (B1.bid in s2['state_ids'], B1.bid in s2['rows'])))
        if not bad and enc.txid(T1) not in [enc.txid(t) for t in w.node.cm.transaction_pool]:
            hd = B1 if B1.bid in w.node.cm.coinstate.block_by_hash and w.node.cm.coinstate.current_chain_hash == B1.bid else None
            if hd is not None and not refmodel.validate_tx(T1, hd.utxo):
                w.O.send(DataMessage(DATA_TRANSACTION, T1))
                if enc.txid(T1) not in [enc.txid(t) for t in w.node.cm.transaction_pool]:
                    bad.append(('honest-delivery-impaired', "after the attack a valid transaction delivered by an honest peer is "
                                "not admitted to the pool"))
        if w.net.escaped:
            bad.append(('exception-escaped', "exception escaped: %s" % (w.net.escaped[0],)))
    return bad


class Hang(BaseException):
    pass


def _alarm(signum, frame_):
    raise Hang()


HANG_SECONDS = 20


def run_mutant(phase, same_host, data, frag, close_after):
    """one attack on a fresh world, under a watchdog: input that makes a handler loop for ever stops the node's event loop
    just as an escaped exception does"""
    import signal
    w = AttackWorld(phase, same_host)
    old = signal.signal(signal.SIGALRM, _alarm)
    signal.setitimer(signal.ITIMER_REAL, HANG_SECONDS)
    try:
        msgs, B1, T1 = base_messages(w, phase)
        try:
            deliver(w, data, frag)
            res = judge(w, B1, T1, close_after)
        except Hang:
            signal.setitimer(signal.ITIMER_REAL, 0)
            return [('event-loop-hangs', "the node's event handling did not return within %d s (it normally takes milliseconds): the "
                     "event loop is stuck" % HANG_SECONDS)], False, False
        return res, w.X.alive, getattr(w, 'entered_by_attack', False)
    finally:
        signal.setitimer(signal.ITIMER_REAL, 0)
        signal.signal(signal.SIGALRM, old)
        w.close()


def reset_before_accept(_):
    """a peer connects, writes a few bytes and resets the connection before the node gets round to accepting it (the node was
    busy): accept() still hands the dead connection out.  At most that connection is lost"""
    c09.setup_worker()
    out = []
    for garbage in (b'', b'\x00\x01junk', b'MAJI\x00\x00'):
        w = AttackWorld('before-greeting', False)
        try:
            msgs, B1, T1 = base_messages(w, 'before-greeting')
            s = simnet.FakeSocket(w.net, None)
            s.local = ('9.9.9.9', 50123)
            s.remote = w.node.lsock.local
            w.node.lsock.backlog.append(s)
            s.rx_out = garbage
            s.close()
            w.node.accept()
            for key, what in judge(w, B1, T1, False):
                out.append((key, what + "; a connection reset before the node accepted it (%d bytes written first)" % len(garbage)))
        finally:
            w.close()
    return out


def outgoing_victim(_):
    """the honest connection is one the node opened itself (to H, which listens on H's address); the attacker connects from the
    SAME host as H and, once greeted, announces peers: other hosts with H's port, H's address with one byte of the IP altered,
    H's own address.  Whatever the node then dials, its established connection to H stays as it was"""
    from ipaddress import IPv6Address
    from skepticoin.networking import messages as M
    from skepticoin.networking.remote_peer import load_peers_from_list
    c09.setup_worker()
    out = []
    HH, HP = '5.5.5.9', 2412
    menus = {
        'other-host-same-port': [('9.9.9.9', HP)],
        'ip-byte-altered': [('5.5.5.8', HP), ('5.5.4.9', HP), ('133.5.5.9', HP)],
        'own-address-of-H': [(HH, HP)],
        'many': [('9.9.%d.9' % i, HP) for i in range(1, 9)] + [(HH, HP + 1)],
    }
    for name, entries in menus.items():
        w = c09.World()
        try:
            net, node = w.net, w.node
            lst = simnet.FakeSocket(net, None)
            lst.local = (HH, HP)
            net.listeners[(HH, HP)] = lst
            node.nm.disconnected_peers.update(load_peers_from_list([(HH, HP, 'OUTGOING')]))
            net.clock.t += 1
            node.tick()
            dial = [s_ for s_ in list(net.dialling) if s_.remote == (HH, HP)]
            if not dial:
                out.append(('harness', 'the node did not dial H'))
                continue
            Hc = simnet.Remote.for_dial(net, node, dial[0], HH)
            node.flush()
            Hc.hello(nonce=4711)
            node.tick()
            Hc.received()
            hpeer = node.peer_for(Hc.node_sock)
            if hpeer is None or not (hpeer.hello_sent and hpeer.hello_received):
                out.append(('harness', 'outgoing connection to H not greeted'))
                continue
            X = simnet.Remote(net, node, host=HH)
            X.hello(nonce=999)
            node.tick()
            X.received()
            X.send(M.PeersMessage([M.Peer(int(net.clock()), IPv6Address('::ffff:' + h), p) for h, p in entries]))
            for dt in (1, 11, 25):
                net.clock.t += dt
                node.tick()
                for s_ in list(net.dialling):
                    if s_.remote == (HH, HP):
                        simnet.Remote.for_dial(net, node, s_, HH)     # H listens: the connection is established
                        node.flush()
                    else:
                        net.complete_dial(s_)
                        if s_.error is not None:
                            node.read_event(s_)
                node.tick()
            what = None
            if Hc.node_sock.closed or Hc.node_sock not in node.lp.selector.get_map():
                what = "the node closed its established outgoing connection to the honest peer"
            elif not any(p is hpeer for p in node.nm.connected_peers.values()):
                what = "the honest peer is no longer among the connected peers"
            else:
                Hc.received()
                Hc.send(M.GetPeersMessage())
                if 'PeersMessage' not in [type(m).__name__ for hh, m in Hc.received()]:
                    what = "the honest peer's request is no longer answered"
            if what:
                out.append(('victim-affected', "%s after a peer on the same host announced %s (%s)" % (what, name, entries[:3])))
            if net.escaped:
                out.append(('exception-escaped', "exception escaped the node's event handling: %s" % (net.escaped[0],)))
        finally:
            w.close()
    return out


def transcript(phase):
    w = AttackWorld(phase, False)
    try:
        msgs, B1, T1 = base_messages(w, phase)
        return [(nm, pl) for nm, pl in msgs]
    finally:
        w.close()


def subst_value(b, v):
    if v == 'x01':
        return b ^ 0x01
    if v == 'x80':
        return b ^ 0x80
    return int(v, 16)


def field_boundaries(pl):
    """offsets inside a payload where fields start: envelope parts, header fields, type, then every 16 bytes"""
    fixed = [0, 1, 5, 9, 13, 21, 53, 55, 56, 58]
    return sorted({o for o in fixed + list(range(58, len(pl), 16)) + [max(0, len(pl) - 8), len(pl)] if o <= len(pl)})


def mutant_families(ctx, phase):
    """yield (family, descriptor, bytes, close_after, fragmentations)"""
    msgs = transcript(phase)
    frames = [frame(pl) for nm, pl in msgs]
    names = [nm for nm, pl in msgs]
    full = b''.join(frames)
    F3 = ('whole', 'first64-bytewise', 'cut-mid')
    F1 = ('whole',)
    quick = ctx.quick
    # control: the unmodified transcript
    yield 'control', 'unmodified', full, False, F3
    # 1. byte substitution
    vals = SUBST_QUICK if quick else SUBST_ALL
    for p in range(len(full)):
        for v in vals:
            nb = subst_value(full[p], v)
            if nb == full[p]:
                continue
            yield 'subst', 'byte %d := %s' % (p, v), full[:p] + bytes([nb]) + full[p + 1:], False, (F1 if quick else F3)
    # 2. truncation followed by close / by the next message
    starts = list(itertools.accumulate([0] + [len(f) for f in frames]))
    for p in range(0, len(full), 1 if not quick else 3):
        yield 'truncate+close', 'first %d bytes then close' % p, full[:p], True, F1
    for i in range(len(frames)):
        for o in field_boundaries(msgs[i][1]):
            cut = starts[i] + 8 + o
            if cut < starts[i + 1]:
                yield 'truncate+next', 'message %s cut at payload offset %d, next message follows' % (names[i], o), \
                    full[:cut] + full[starts[i + 1]:], False, F1
    # 3. whole-message edits
    for i in range(len(frames)):
        yield 'delete', 'message %s deleted' % names[i], b''.join(frames[:i] + frames[i + 1:]), False, F3
        yield 'duplicate', 'message %s twice' % names[i], b''.join(frames[:i + 1] + frames[i:]), False, F3
        yield 'alone', 'only message %s' % names[i], frames[i], False, F3
    for i in range(len(frames)):
        for j in range(i + 1, len(frames)):
            fr = list(frames)
            fr[i], fr[j] = fr[j], fr[i]
            yield 'transpose', 'messages %s and %s swapped' % (names[i], names[j]), b''.join(fr), False, F1
    # 4. splices at field boundaries
    for i in range(len(msgs)):
        bi = [o for o in (0, 53, 55, 58, len(msgs[i][1]) // 2, len(msgs[i][1]) - 8) if 0 <= o <= len(msgs[i][1])]
        for j in range(len(msgs)):
            if i == j:
                continue
            bj = [o for o in (53, 55, 58, len(msgs[j][1]) // 2, max(0, len(msgs[j][1]) - 8)) if 0 <= o <= len(msgs[j][1])]
            for oi in bi:
                for oj in bj:
                    yield 'splice', '%s[:%d] + %s[%d:]' % (names[i], oi, names[j], oj), \
                        b''.join(frames[:1] if names[0] == 'hello' and i != 0 else []) + frame(msgs[i][1][:oi] + msgs[j][1][oj:]), False, F1
    # 5. every message type / data type value 0000..00ff (and a few beyond) in a well-formed envelope
    hello = frames[:1] if names[0] == 'hello' else []
    bodies = {'empty': b'', 'getdata-body': msgs[names.index('getdata')][1][55:], 'hello-like': b'\x00' * 60}
    for t in list(range(256)) + [0x0100, 0xffff, 0x0400]:
        for bn, body in bodies.items():
            pl = msgs[names.index('getpeers')][1][:53] + struct.pack(">H", t) + body
            yield 'msgtype', 'message type %04x with %s body' % (t, bn), b''.join(hello) + frame(pl), False, F1
    gd = msgs[names.index('getdata')][1]
    db = msgs[names.index('datablock')][1]
    inv = msgs[names.index('inventory')][1]
    from skepticoin.datatypes import Block as _B
    db_id = _B.deserialize(db[58:]).hash()
    for t in list(range(256)) + [0x0100, 0xffff]:
        tt = struct.pack(">H", t)
        yield 'datatype', 'get-data with data type %04x' % t, b''.join(hello) + frame(gd[:56] + tt + gd[58:]), False, F1
        yield 'datatype', 'data message with data type %04x' % t, b''.join(hello) + frame(db[:56] + tt + db[58:]), False, F1
        yield 'datatype', 'inventory item with data type %04x' % t, b''.join(hello) + frame(inv[:57] + tt + inv[59:]), False, F1
        # ... the same inventory naming the transcript's own block, followed by that block (and once by the block twice)
        inv2 = inv[:57] + tt + db_id + inv[91:]
        yield 'datatype', 'inventory item with data type %04x naming the block that follows' % t, \
            b''.join(hello) + frame(inv2) + frame(db), False, F1
    # 6. length fields
    for i in range(len(frames)):
        L = len(msgs[i][1])
        for ln in (0, 1, L - 1, L + 1, 53, 2**24, MAXLEN, MAXLEN + 1, 2**32 - 1):
            if ln < 0:
                continue
            fr = list(frames)
            fr[i] = frame(msgs[i][1], length=ln)
            yield 'length', 'message %s with length field %d (payload %d)' % (names[i], ln, L), b''.join(fr), False, F1
    # 7. list-length prefixes replaced by huge / non-canonical VLQs
    sites = [('getblocks', 56), ('inventory', 56), ('peers', 56)]
    for nm, off in sites:
        pl = msgs[names.index(nm)][1]
        for v in (b'\xff\xff\xff\xff\x7f', b'\x83\xff\x7f', b'\x80\x01', b'\x02', b'\x7f', b'\xff' * 12 + b'\x00'):
            yield 'listlen', '%s count replaced by %s' % (nm, v.hex()), b''.join(hello) + frame(pl[:off] + v + pl[off + 1:]), False, F1
    # 7+. a list count that never ends: megabytes of continuation octets (the frame is far below the 32 MB frame limit).  A decoder
    #     that keeps accumulating an ever longer integer needs time quadratic in the length - minutes for this one, days for a
    #     full-size frame - during which the event loop serves nobody (the watchdog reports it)
    for nm, off in sites[:2]:
        pl = msgs[names.index(nm)][1]
        yield 'endless-count', '%s count replaced by 3,000,000 continuation octets' % nm, \
            b''.join(hello) + frame(pl[:off] + b'\xff' * 3_000_000 + b'\x00' + pl[off + 1:]), False, F1
    # 7b. crafted, structurally invalid / rule-breaking blocks and transactions as data messages (one broken rule each)
    w = AttackWorld(phase, False)
    try:
        from .. import cands
        from skepticoin.networking import messages as M_
        H = w.fc.head()
        hdr53 = msgs[names.index('datatx')][1][:53]
        hdr53r = M_.MessageHeader(int(w.net.clock()), 91, 77, 777).serialize()
        assert len(hdr53r) == len(hdr53) == 53 or True
        for fam in (cands.c05_candidates, cands.c02_candidates, cands.c01_candidates):
            for c in fam(H, w.uni):
                if c.wire() is None:
                    continue
                pl = hdr53 + b'\x00\x04' + b'\x00' + b'\x00\x00' + enc.enc_block(c.block)
                yield 'broken-block', c.name, b''.join(hello) + frame(pl), False, F1
                # ... and once more dressed up as the ANSWER to a request the node never made (the "in response to" field of
                # the envelope is the sender's to fill in): out of protocol order, and still a rule-breaking block
                yield 'broken-block-as-unrequested-answer', c.name, b''.join(hello) + frame(hdr53r + pl[53:]), False, F1
        # the genuine header of the transcript's valid block over a tampered body (same id, refused on the merkle root)
        from skepticoin.datatypes import Block as _B
        B1n = w.uni.get(H.path + ('e',))
        cb0 = B1n.block.transactions[0]
        cbt = world.coinbase_tx(B1n.height, [(o.value, o.public_key) for o in cb0.outputs], b'tampered')
        yield 'broken-block', 'tampered-body-under-the-valid-blocks-header', b''.join(hello) + frame(
            hdr53 + b'\x00\x04\x00\x00\x00' + enc.enc_block(_B(B1n.block.header, [cbt]))), False, F3
        # a block that states a height far beyond its chain (evidence cannot even be recomputed)
        far = world.assemble(H, [], K[4], H.ts + 120, height=H.height + 1000, no_evidence=True)
        yield 'broken-block', 'height-far-beyond-chain', b''.join(hello) + frame(
            hdr53 + b'\x00\x04\x00\x00\x00' + enc.enc_block(far)), False, F3
        yield 'broken-block-as-unrequested-answer', 'height-far-beyond-chain', b''.join(hello) + frame(
            hdr53r + b'\x00\x04\x00\x00\x00' + enc.enc_block(far)), False, F3
        # a block whose parent the node does not have yet (the transcript's valid block, which an honest peer delivers AFTER the
        # attack) and which cannot be applied: whatever the node does with early arrivals, the honest peer that later delivers
        # the parent must not pay for it
        try:
            for c in cands.c01_candidates(B1n, w.uni):
                if not getattr(c, 'control', False) and 'missing' in c.name and c.wire() is not None:
                    yield 'unappliable-child-of-a-block-not-yet-known', c.name, b''.join(hello) + frame(
                        hdr53 + b'\x00\x04\x00\x00\x00' + enc.enc_block(c.block)), False, F1
                    break
        except Exception:
            pass
        # ... and as a REQUESTED answer: the attacker lists the block in an inventory, the node asks for it, the block arrives as
        # the answer (the bulk-download path, where full validation is by design left to every 10,000th block).  A block
        # whose stated height is not its parent's plus one can belong to no valid chain whatever follows it, and the
        # by-height index the node's own requests are built from has no room for it: it must not get in on this path either.
        for dh, nm in ((1000, 'far beyond'), (2, '+2'), (0, 'equal to'), (-1, 'below')):
            if H.height + dh < 1:
                continue
            try:
                wh = world.assemble(H, [], K[4], H.ts + 120, height=H.height + dh, no_evidence=True)
            except Exception:
                continue
            invm = M_.InventoryMessage([M_.InventoryItem(M_.DATA_BLOCK, enc.blockid(wh))])
            yield 'wrong-height-block-as-requested-answer', 'stated height %s the parent\'s' % nm, b''.join(hello) + frame(
                hdr53r + invm.serialize()) + frame(hdr53r + b'\x00\x04\x00\x00\x00' + enc.enc_block(wh)), False, F3
        # 7a. replayed greetings (valid traffic of ANOTHER connection spliced into the attacker's): the greeting of the victim,
        #     of the other honest peers and one carrying the node's own nonce - as the first message, after the attacker's
        #     own greeting, twice.  A nonce travels in the clear and proves nothing about who sends it.
        for who, nonce in (('the victim', 1), ('the second honest peer', 2), ('the third honest peer', 4), ('the node itself', w.node.lp.nonce)):
            for port in (2412, 0):
                hm = M_.HelloMessage([M_.SupportedVersion(0)], IPv6Address('::ffff:1.1.1.1'), 0, IPv6Address(0), port, nonce, b'vf')
                fh = frame(hdr53 + hm.serialize())
                yield 'replayed-greeting', "greeting of %s (nonce %d, port %d) alone" % (who, nonce, port), fh, False, F1
                yield 'replayed-greeting', "own greeting, then greeting of %s (nonce %d, port %d)" % (who, nonce, port), \
                    b''.join(hello) + fh, False, F1
                yield 'replayed-greeting', "greeting of %s (nonce %d, port %d) twice, then get-peers" % (who, nonce, port), \
                    fh + fh + frames[names.index('getpeers')], False, F1
        from . import c13

        class TW:
            stored = {(): w.uni.root}
            uni = w.uni

            @staticmethod
            def head():
                return H
        for p in c09.PREFIX:
            TW.stored[p] = w.uni.get(p)
        for nm, tx in c13.tx_menu(TW).items():
            try:
                body = b'\x00\x04\x00\x00\x02' + enc.enc_tx(tx)
            except Exception:
                continue
            yield 'broken-tx', nm, b''.join(hello) + frame(hdr53 + body), False, F1
    finally:
        w.close()
    # 7c. peers messages announcing special addresses (dialled by the next manager steps)
    from skepticoin.networking import messages as M
    specials = ['224.0.0.1', '239.255.255.250', '255.255.255.255', '0.0.0.0', '127.0.0.1', '10.0.0.1', '5.5.5.5', '6.6.6.6', '240.0.0.1']
    hdr53 = msgs[names.index('peers')][1][:53]
    for host in specials:
        for port in (0, 1, 2412, 65535):
            pm = M.PeersMessage([M.Peer(0, IPv6Address('::ffff:%s' % host), port)])
            yield 'peers-announce', '%s:%d' % (host, port), b''.join(hello) + frame(hdr53 + pm.serialize()), False, F1
    pm = M.PeersMessage([M.Peer(0, IPv6Address('::ffff:%s' % h), 2412) for h in specials] * 3)
    yield 'peers-announce', 'all special addresses, three times', b''.join(hello) + frame(hdr53 + pm.serialize()), False, F1
    # 8. magic
    for i in range(4):
        for v in (0, 0xff, full[i] ^ 1):
            yield 'magic', 'magic byte %d := %02x' % (i, v), full[:i] + bytes([v]) + full[i + 1:], False, F1
    # 9. random bytes (supplement; the verdict rests on the enumerated families)
    rnd = random.Random(ctx.seed)
    for k in range(60 if quick else 400):
        n = rnd.choice((1, 7, 8, 9, 60, 61, 300, 2000))
        yield 'random', 'random %d bytes #%d' % (n, k), bytes(rnd.getrandbits(8) for _ in range(n)), bool(k % 2), F1
        yield 'random', 'random %d bytes after hello #%d' % (n, k), b''.join(hello) + b'MAJI' + struct.pack(">I", n) + bytes(rnd.getrandbits(8) for _ in range(n)), False, F1



def _worker(arg):
    phase, same_host, items = arg
    c09.setup_worker()
    st = {'runs': 0, 'attacker_dropped': 0, 'block_entered': 0}
    fam = {}
    bad = []
    for family, desc, data, close_after, frags in items:
        for fr in frags:
            st['runs'] += 1
            f = fam.setdefault(family, [0, 0])
            f[0] += 1
            try:
                res, x_alive, entered = run_mutant(phase, same_host, data, fr, close_after)
            except seams.HarnessError:
                raise
            if not x_alive:
                st['attacker_dropped'] += 1
                f[1] += 1
            if entered:
                st['block_entered'] += 1
            for key, what in res:
                if len(bad) < 40:
                    bad.append((key, "%s; attacker phase %s, %s, mutant family %s: %s, fragmentation %s" % (
                        what, phase, 'same host as victim' if same_host else 'other host', family, desc, fr),
                        {'phase': phase, 'same_host': same_host, 'data': data.hex(), 'frag': fr, 'close': close_after}, len(data)))
    best = {}
    for key, what, rp, sz in bad:
        if key not in best or sz < best[key][2]:
            best[key] = (what, rp, sz)
    return st, fam, [(k, v[0], v[1]) for k, v in best.items()]


def run(ctx):
    c09.setup_worker()
    jobs = []
    plan = [('before-greeting', False)] if ctx.quick else [('before-greeting', False), ('after-greeting', True), ('awaiting-inventory', False),
                                                           ('node-greeted-first', False)]
    nm = {}
    for phase, same in plan:
        items = list(mutant_families(ctx, phase))
        nm[phase] = len(items)
        if ctx.seed:
            random.Random(ctx.seed).shuffle(items)
        n = ctx.ncpu * 4
        jobs += [(phase, same, items[i::n]) for i in range(n) if items[i::n]]
    if ctx.quick:
        # structural families also in the other phases / same host
        for phase, same in (('after-greeting', True), ('awaiting-inventory', False), ('node-greeted-first', False)):
            items = [m for m in mutant_families(ctx, phase) if m[0] not in ('subst', 'truncate+close', 'msgtype', 'datatype', 'random')]
            nm[phase] = len(items)
            n = ctx.ncpu
            jobs += [(phase, same, items[i::n]) for i in range(n) if items[i::n]]
    ctx.log("mutants per phase", nm)
    for key, what in ctx.pmap(reset_before_accept, [0, 1])[0]:
        ctx.violation(key, what, {'reset_before_accept': True})
    for key, what in ctx.pmap(outgoing_victim, [0, 1])[0]:
        ctx.violation(key, what, {'outgoing_victim': True})
    res = ctx.pmap(_worker, jobs)
    tot = {'runs': 0, 'attacker_dropped': 0, 'block_entered': 0}
    fam = {}
    for st, f, bad in res:
        for k in tot:
            tot[k] += st[k]
        for k, v in f.items():
            e = fam.setdefault(k, [0, 0])
            e[0] += v[0]
            e[1] += v[1]
        for key, what, rp in bad:
            ctx.violation(key, what, rp)
    ctx.cov.update({
        'evaluations': tot['runs'], 'distinct_nontrivial': tot['attacker_dropped'] + tot['block_entered'],
        'rule': "mutants of a complete protocol transcript (one valid instance of every message type), enumerated completely per "
                "family: every byte position x replacement values, every truncation (+close / + next message), deletion, "
                "duplication, isolation and transposition of whole messages, field-boundary splices, every message type and data "
                "type 0000..00ff, boundary length fields, oversized / non-canonical list counts, magic bytes, plus a seeded random "
                "supplement; delivered whole / bytewise for the first 64 bytes / cut in the middle; non-trivial = the attacker "
                "connection was dropped or the transcript's valid block entered state",
        'samples': [{'phase': j[0], 'family': m[0], 'mutant': m[1], 'bytes': len(m[2])} for j in jobs[:1] for m in j[2][:4]],
        'exhaustive': True, 'mutants_per_phase': nm, 'per_family': {k: {'runs': v[0], 'attacker_dropped': v[1]} for k, v in fam.items()},
        'attacker_dropped': tot['attacker_dropped'], 'valid_block_entered': tot['block_entered'],
    })
    ctx.assumptions.append("resource exhaustion (32 MB frames, million-entry lists) is a capacity matter outside this state-based "
                           "oracle; sizes stay small")


def replay(data, ctx):
    if data.get('outgoing_victim'):
        return outgoing_victim(0)
    if data.get('reset_before_accept'):
        return reset_before_accept(0)
    c09.setup_worker()
    res, _, _ = run_mutant(data['phase'], data['same_host'], bytes.fromhex(data['data']), data['frag'], data['close'])
    return list(res)
