"""C08 - persistence fidelity.  Write histories (block trees incl. forks that share a pending transaction or spend
differently) x every batching of the writes into flushes x a restart (new BlockStore on the same file + the real
read_chain_from_disk) after every flush."""
import contextlib
import io
import os

from .. import enc, ledger, seams, thrscen, world

LEVEL = 'model_checking'
PREFIX = (('f',), ('f', 's'))
LABELS = ('e', 'a', 'b', 'c', 'd')


def universe():
    # the store never looks at proof of work: blocks are assembled without the nonce search
    return ledger.tx_universe('genesis', mined=False)


def compositions(n):
    """all ways of cutting n writes into consecutive flush batches: list of lists of batch sizes"""
    out = []
    for mask in range(1 << (n - 1)):
        sizes = []
        cur = 1
        for i in range(n - 1):
            if mask & (1 << i):
                sizes.append(cur)
                cur = 1
            else:
                cur += 1
        sizes.append(cur)
        out.append(sizes)
    return out


def run_history(uni, hist, sizes, dbpath, stats, bad, discard_first=False):
    """returns nothing; appends violations.  discard_first: the first batch is handed to the store, the buffer is then
    discarded the way the node does after a rejected download (DefaultBlockStore.instance.write_buffer.clear()), and the
    same blocks are handed in again before the flush"""
    from skepticoin import blockstore
    from skepticoin.scripts import utils as su
    if os.path.exists(dbpath):
        os.remove(dbpath)
    sink = io.StringIO()
    with contextlib.redirect_stdout(sink):
        st = blockstore.BlockStore(dbpath)
    written = [uni.root]
    pos = 0
    tx_first_block = {enc.txid(t): uni.root.bid for t in uni.root.block.transactions}
    affected = False
    for bs in sizes:
        batch = [uni.get(p) for p in hist[pos:pos + bs]]
        pos += bs
        try:
            if discard_first and pos == bs:
                for n in batch:
                    st.add_block_to_buffer(n.block)
                st.write_buffer.clear()
                stats['discards'] = stats.get('discards', 0) + 1
            for n in batch:
                st.add_block_to_buffer(n.block)
            st.flush_blocks_to_disk()
        except Exception as e:
            bad.append(('flush-raises', "flush of accepted blocks raises %r" % (e,), hist, sizes))
            return
        stats['flushes'] += 1
        for n in batch:
            written.append(n)
            for t in n.block.transactions:
                tx_first_block.setdefault(enc.txid(t), n.bid)
        # ---- restart
        st.close()
        out = io.StringIO()
        with contextlib.redirect_stdout(out):
            st = blockstore.BlockStore(dbpath)
            blockstore.DefaultBlockStore.instance = st
            try:
                got = list(st.read_blocks_from_disk())
            except Exception as e:
                bad.append(('read-raises', "reading the store raises %r" % (e,), hist, sizes))
                return
            try:
                cs = su.read_chain_from_disk()
            except Exception as e:
                bad.append(('reload-raises', "read_chain_from_disk raises %r" % (e,), hist, sizes))
                return
        stats['reloads'] += 1
        exp = {n.bid: n for n in written}
        seen_ids = []
        for b in got:
            try:
                bid = b.hash()
                ser = b.serialize()
            except Exception as e:
                bad.append(('block-differs', "a block read back cannot be encoded: %r" % (e,), hist, sizes))
                continue
            seen_ids.append(bid)
            n = exp.get(bid)
            if n is None:
                bad.append(('unknown-block', "the store returns a block that was never written", hist, sizes))
                continue
            if b.previous_block_hash != b'\x00' * 32 and b.previous_block_hash not in seen_ids[:-1]:
                par = exp.get(b.previous_block_hash)
                if par is not None and all(tx_first_block[enc.txid(t)] != par.bid for t in par.block.transactions):
                    # the parent is one of the blocks the recorded defect makes vanish (all its transactions are shared
                    # with earlier-written blocks); reported below under that key
                    affected = True
                else:
                    bad.append(('child-before-parent', "block %s is returned before its parent" % (n.path,), hist, sizes))
            stats['blocks_compared'] += 1
            if ser != n.ser:
                # is this exactly the recorded defect? (transactions already stored under an earlier-written block are lost)
                kept = [t for t in n.block.transactions if tx_first_block[enc.txid(t)] == n.bid]
                lost = len(n.block.transactions) - len(kept)
                from skepticoin.datatypes import Block
                if lost and ser == enc.enc_block(Block(n.block.header, kept)):
                    affected = True
                    bad.append(('shared-transaction-across-stored-blocks',
                                "block %s comes back without %d transaction(s) that an earlier-written stored block also "
                                "contains" % ('/'.join(map(str, n.path)), lost), hist, sizes))
                else:
                    bad.append(('block-differs', "block %s read back differs from what was written (%d vs %d transactions)" % (
                        '/'.join(map(str, n.path)), len(b.transactions), len(n.block.transactions)), hist, sizes))
                    affected = True
        missing = [exp[i] for i in exp if i not in seen_ids]
        if missing and all(all(tx_first_block[enc.txid(t)] != n.bid for t in n.block.transactions) for n in missing) \
                and len(seen_ids) == len(set(seen_ids)) and set(seen_ids) <= set(exp):
            # the recorded defect again: a block all of whose transactions are also in earlier-written blocks has no
            # locator row of its own and is not returned at all
            affected = True
            bad.append(('shared-transaction-across-stored-blocks',
                        "block %s is not returned at all: every transaction in it is also contained in an earlier-written "
                        "stored block" % ('/'.join(map(str, missing[0].path)),), hist, sizes))
        elif sorted(seen_ids) != sorted(exp.keys()):
            bad.append(('block-set-differs', "store returns %d blocks, %d were flushed (duplicates or losses)" % (
                len(seen_ids), len(exp)), hist, sizes))
            affected = True
        if affected:
            stats['state_checks_skipped'] += 1
            continue
        # ---- rebuilt ledger state
        if 'Skipping' in out.getvalue():
            bad.append(('reload-skips-block', "read_chain_from_disk skipped a block: %s" % out.getvalue().strip()[-80:], hist, sizes))
            continue
        stats['state_checks'] += 1
        for n in written:
            try:
                u = ledger.utxo_view(cs.unspent_transaction_outs_by_hash[n.bid])
            except Exception:
                u = None
            if u != n.utxo:
                bad.append(('rebuilt-state-differs', "rebuilt ledger state at %s differs from the one before the restart" % (n.path,),
                            hist, sizes))
                break
        mh = max(n.height for n in written)
        try:
            hh = cs.head().height
        except Exception:
            hh = None
        if hh != mh:
            bad.append(('rebuilt-head-height', "rebuilt head has height %s, greatest stored height is %d" % (hh, mh), hist, sizes))
    st.close()


def sweep_payload(parent, label):
    kind, n = label
    if kind == 'r':      # reward data of every admissible length
        return [], world.K[4], 120, {'cb_data': bytes([0x78]) * n}
    if kind == 't':      # a block whose time stamp is n seconds after (before, if negative) its parent's
        return [], world.K[4], n, {'cb_data': b't%d' % (n % 1000)}
    raise KeyError(label)


def _sweep_worker(_):
    """field-domain sweep: a linear chain whose blocks carry reward data of every length 0..200, written under three
    batchings"""
    ledger.setup()
    uni = world.Universe(world.genesis_node(), sweep_payload, {'pow_ok': None})
    hist = []
    p = ()
    for n in range(0, 201):
        p = p + (('r', n),)
        hist.append(p)
    stats = {'flushes': 0, 'reloads': 0, 'blocks_compared': 0, 'state_checks': 0, 'state_checks_skipped': 0, 'runs': 0}
    bad = []
    dbpath = os.path.join(os.getcwd(), 'c08-sweep.db')
    for sizes in ([201], [67, 67, 67], [1, 200]):
        stats['runs'] += 1
        run_history(uni, tuple(hist), sizes, dbpath, stats, bad)
        if bad:
            break
    # time stamps that do NOT increase along the chain (the store also holds blocks accepted below the checkpoint horizon and
    # on the bulk-download path, where the time-stamp rule is not enforced): children older than their parents, equal stamps,
    # a fork whose younger branch is the longer one - parents still come back first
    if not bad:
        uni2 = world.Universe(world.genesis_node(), sweep_payload, {'pow_ok': None})
        a1 = (('t', 120),)
        a2 = a1 + (('t', -50),)
        a3 = a2 + (('t', 0),)
        a4 = a3 + (('t', -100000),)
        a5 = a4 + (('t', 7),)
        b2 = a1 + (('t', -3000),)
        b3 = b2 + (('t', 1),)
        hist2 = (a1, a2, a3, b2, a4, b3, a5)
        for sizes in ([7], [1, 6], [1] * 7, [3, 4]):
            stats['runs'] += 1
            bad2 = []
            run_history(uni2, hist2, sizes, dbpath, stats, bad2)
            if bad2:
                bad += [(k, w + ' [chain with non-increasing time stamps]', h, s_) for k, w, h, s_ in bad2]
                break
    if os.path.exists(dbpath):
        os.remove(dbpath)
    return stats, [(k, w + ('' if 'time stamps' in w else ' [reward-data length sweep]'), (), s) for k, w, h, s in bad[:3]], len(bad)


def long_payload(parent, label):
    # 'm' = the main chain's next block, 's' / 't' = stale siblings of it (never extended)
    return [], world.K[4 if label == 'm' else 5], 120 + {'m': 0, 's': 1, 't': 2}[label], {'cb_data': label.encode()}


def _long_worker(_):
    """size sweep: a 1,300-block chain with a stale sibling at every height (two below height 650, so that rows of equal
    height fall on every parity), 2,600+ rows in all, written in three batches and read back: whatever the read path does in
    pages / chunks / batches, every block must come back, parents first"""
    ledger.setup()
    uni = world.Universe(world.genesis_node(), long_payload, {'pow_ok': None})
    hist = []
    p = ()
    for h in range(1, 1301):
        hist.append(p + ('m',))
        hist.append(p + ('s',))
        if h == 650:
            hist.append(p + ('t',))
        p = p + ('m',)
    stats = {'flushes': 0, 'reloads': 0, 'blocks_compared': 0, 'state_checks': 0, 'state_checks_skipped': 0, 'runs': 0}
    bad = []
    dbpath = os.path.join(os.getcwd(), 'c08-long.db')
    stats['runs'] += 1
    run_history(uni, tuple(hist), [len(hist) - 700, 400, 300], dbpath, stats, bad)
    if os.path.exists(dbpath):
        os.remove(dbpath)
    return stats, [(k, w + ' [1,300-block chain with a stale sibling at every height]', (), s) for k, w, h, s in bad[:3]], len(bad)


def _wide_worker(_):
    """row-count sweep: one block carries a transaction with 1,201 outputs (more output rows than any round batch size), a
    competing empty block next to it and a child spending two of the late outputs; written under six batchings"""
    ledger.setup()
    uni = universe()
    hist = (('f',), ('f', 's'), ('f', 's', 'O'), ('f', 's', 'e'), ('f', 's', 'O', 'P'))
    stats = {'flushes': 0, 'reloads': 0, 'blocks_compared': 0, 'state_checks': 0, 'state_checks_skipped': 0, 'runs': 0}
    bad = []
    if any(uni.get(p) is None for p in hist):
        return stats, [('harness', 'wide fan-out history not constructible', (), [])], 1
    dbpath = os.path.join(os.getcwd(), 'c08-wide.db')
    for sizes in ([5], [2, 3], [3, 2], [1, 1, 1, 1, 1], [2, 1, 2], [4, 1]):
        stats['runs'] += 1
        run_history(uni, hist, sizes, dbpath, stats, bad)
        if bad:
            break
    if os.path.exists(dbpath):
        os.remove(dbpath)
    return stats, [(k, w + ' [block with a 1,201-output transaction]', hist, s) for k, w, h, s in bad[:3]], len(bad)


def _worker(arg):
    hists, wid = arg
    if hists == 'wide':
        return _wide_worker(None)
    if hists == 'sweep':
        return _sweep_worker(None)
    if hists == 'long':
        return _long_worker(None)
    ledger.setup()
    uni = universe()
    stats = {'flushes': 0, 'reloads': 0, 'blocks_compared': 0, 'state_checks': 0, 'state_checks_skipped': 0, 'runs': 0}
    bad = []
    dbpath = os.path.join(os.getcwd(), 'c08-%d.db' % wid)
    for hist in hists:
        for sizes in compositions(len(hist)):
            stats['runs'] += 1
            run_history(uni, hist, sizes, dbpath, stats, bad)
            if len(sizes) <= 2:
                # the same writes after a discarded first hand-over of the first batch
                stats['runs'] += 1
                nb = len(bad)
                run_history(uni, hist, sizes, dbpath, stats, bad, discard_first=True)
                for i in range(nb, len(bad)):
                    if bad[i][0] != 'shared-transaction-across-stored-blocks':
                        bad[i] = (bad[i][0], bad[i][1] + ' [first batch handed over, discarded, handed over again]', bad[i][2], ['discard'] + list(bad[i][3]))
        if len(bad) > 200:
            break
    if os.path.exists(dbpath):
        os.remove(dbpath)
    # keep the smallest witness per key
    best = {}
    for key, what, hist, sizes in bad:
        k = (len(hist), len(sizes))
        if key not in best or k < best[key][0]:
            best[key] = (k, what, hist, sizes)
    return stats, [(key, v[1], v[2], v[3]) for key, v in best.items()], len(bad)


def run(ctx):
    from skepticoin import blockstore
    ledger.setup()
    seams.rebind(blockstore.DefaultBlockStore, 'instance', blockstore.DefaultBlockStore.instance)
    uni = universe()
    depth = 3 if ctx.quick else 4
    levels = ledger.enumerate_histories(uni, PREFIX, LABELS, depth)
    # the store is keyed by block only: arrival order matters only through batching, so (set, head) representatives suffice
    hists = [h for lv in levels for h in lv]
    # unusual but valid reward shapes: no outputs at all, a zero-value output, two outputs to one key (then children on top)
    have = set(hists)
    for lv in ledger.enumerate_histories(uni, PREFIX, ('n', 'z', 'y', 'e'), 2):
        hists += [h for h in lv if h not in have]
    ctx.log("histories per level", [len(l) for l in levels])
    if ctx.seed:
        import random
        random.Random(ctx.seed).shuffle(hists)
    n = max(1, min(len(hists), ctx.ncpu * 4))
    res = ctx.pmap(_worker, [('long', -2), ('sweep', -1), ('wide', -3)] + [(hists[i::n], i) for i in range(n)])
    tot = {}
    for st, bad, nbad in res:
        for k, v in st.items():
            tot[k] = tot.get(k, 0) + v
        tot['violating_runs'] = tot.get('violating_runs', 0) + nbad
        for key, what, hist, sizes in bad:
            ctx.violation(key, "%s; writes %s in batches %s" % (what, ledger.hist_str(hist), sizes),
                          {'hist': [list(p) for p in hist], 'sizes': sizes})
    # ---- the schedule dimension: two or three threads saving and flushing through the one shared store
    thr = thrscen.run(ctx, 'C08', 2 if ctx.quick else 3)
    shared = sum(1 for h in hists if _has_shared(uni, h))
    ctx.cov.update({
        'states': tot['reloads'], 'transitions': tot['flushes'], 'traces_validated_against_impl': tot['blocks_compared'],
        'samples': [{'writes': ledger.hist_str(hists[-1]), 'batches': compositions(len(hists[-1]))[3]}],
        'histories': len(hists), 'histories_with_tx_shared_between_stored_blocks': shared, 'runs': tot['runs'],
        'ledger_state_checks': tot['state_checks'], 'ledger_state_checks_skipped_after_block_mismatch': tot['state_checks_skipped'],
        'exhaustive': True, 'thread_schedules': thr,
        'rule': "histories = BFS over block trees (payload menu with forks including the same transaction / spending the same "
                "output differently / multi-input multi-output), %d blocks beyond a 2-block prefix; each history under every "
                "composition into flush batches (those with <= 2 batches also with the first batch handed over, discarded as after a rejected download, and handed over again); after every flush a restart and comparison of every block (bytes, order) and "
                "of the rebuilt ledger state; plus a 201-block chain carrying reward data of every length 0..200 and a 1,300-block chain with a stale sibling at every height (2,601 rows) and a block with a 1,201-output transaction" % depth,
    })
    ctx.assumptions.append("fidelity of acknowledged flushes with a clean shutdown; crash consistency of SQLite (journal_mode="
                           "MEMORY, synchronous=OFF) is not what the property asks")


def _has_shared(uni, hist):
    seen = set()
    for p in hist:
        for t in uni.get(p).block.transactions:
            i = enc.txid(t)
            if i in seen:
                return True
            seen.add(i)
    return False


def replay(data, ctx):
    from skepticoin import blockstore
    ledger.setup()
    if 'thread_scenario' in data:
        return thrscen.replay(data)
    if not data['hist']:
        st, bad, n = _sweep_worker(None)
        st2, bad2, n2 = _long_worker(None)
        return [(k, w) for k, w, _, _ in bad + bad2]
    uni = universe()
    hist = tuple(tuple(p) for p in data['hist'])
    stats = {'flushes': 0, 'reloads': 0, 'blocks_compared': 0, 'state_checks': 0, 'state_checks_skipped': 0, 'runs': 0}
    bad = []
    dbpath = os.path.join(os.getcwd(), 'c08-replay.db')
    sz = list(data['sizes'])
    run_history(uni, hist, [x for x in sz if x != 'discard'], dbpath, stats, bad, discard_first='discard' in sz)
    if os.path.exists(dbpath):
        os.remove(dbpath)
    return [(k, w) for k, w, _, _ in bad]
