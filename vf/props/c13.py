"""C13 - pending-transaction pool holds only valid, mutually compatible transactions.
BFS over interleavings of transaction submissions (through the network handler and through add_transaction_to_pool)
with head changes (extension, side fork, reorganisation; through relayed blocks and through set_coinstate), on one
real node; reference pool and reference ledger in lock-step."""
from .. import enc, ledger, refmodel, seams, simnet, thrscen, world
from ..world import K, oref, owned

LEVEL = 'model_checking'
PREFIX = (('f',), ('f', 's'))
COIN = ledger.COIN
_W = {}


def setup_worker():
    if _W:
        return _W
    from skepticoin.coinstate import CoinState
    ledger.setup()
    net = simnet.Net(seams.Clock(0))
    net.install()
    uni = ledger.tx_universe('easy')
    base = [uni.get(p) for p in PREFIX]
    now0 = base[-1].ts + 5000
    cs = CoinState.empty().add_block_no_validation(uni.root.block)
    for n in base:
        cs = cs.add_block(n.block, now0)
    _W.update(net=net, uni=uni, base=base, cs=cs, now0=now0)
    return _W


class World:
    def __init__(self):
        W = setup_worker()
        self.W = W
        self.uni = W['uni']
        net = W['net']
        for lst in (net.escaped, net.dialling, net.connections, net.nodes):
            lst.clear()
        net.listeners.clear()
        net.clock.t = W['now0']
        self.net = net
        self.node = simnet.SimNode(net, 'N', '10.0.0.1', W['cs'])
        self.peers = []
        self.new_peer()
        self.stored = {(): self.uni.root}
        self.fc = refmodel.ForkChoice()
        self.fc.add(self.uni.root)
        for n in W['base']:
            self.stored[n.path] = n
            self.fc.add(n)
        self.txs = {}        # txid -> tx object of everything ever submitted (for reporting)

    def new_peer(self):
        p = simnet.Remote(self.net, self.node, host='5.5.5.%d' % (len(self.peers) + 1))
        p.hello(nonce=100 + len(self.peers))
        self.node.tick()
        p.received()
        self.peers.append(p)
        return p

    def peer(self):
        for p in self.peers:
            if p.alive:
                return p
        return self.new_peer()

    def pool(self):
        return list(self.node.cm.transaction_pool)

    def pool_ids(self):
        return tuple(enc.txid(t) for t in self.node.cm.transaction_pool)

    def head(self):
        return self.fc.head()

    def resync(self):
        """after a delivery that may have made the node fall back to an earlier state: the reference keeps exactly the blocks
        the node's chain state holds (in their arrival order)"""
        have = self.node.cm.coinstate.block_by_hash
        order = [n for n in self.fc.order if n.bid in have]
        self.fc = refmodel.ForkChoice()
        for n in order:
            self.fc.add(n)
        self.stored = {n.path: n for n in order}


def tx_menu(w):
    """submissions enabled at the current head: name -> transaction"""
    H = w.head()
    U = H.utxo
    o0 = owned(U, K[0])
    o1 = owned(U, K[1])
    out = {}
    if o0:
        v = U[o0[0]][0]
        r = oref(o0[0])
        if v > COIN + 1000:
            out['A-valid'] = world.mk_tx([(r, K[0])], [(COIN, K[1]), (v - COIN - 1000, K[0])])
        out['B-conflicts-with-A'] = world.mk_tx([(r, K[0])], [(v - 5, K[2])])
        out['bad-signature'] = world.mk_tx([(r, K[2])], [(v - 7, K[1])])
        out['overspend'] = world.mk_tx([(r, K[0])], [(v + 1, K[1])])
        out['dup-reference'] = world.mk_tx([(r, K[0]), (r, K[0])], [(v, K[1])])
        # the same output twice, each time with a DIFFERENT valid signature of the owner (the two inputs are not equal)
        out['dup-reference-two-signatures'] = world.mk_tx([(r, K[0]), (r, ('second-signature', K[0]))], [(2 * v - 31, K[1])])
        out['zero-value'] = world.mk_tx([(r, K[0])], [(0, K[1]), (v - 9, K[1])])
        out['over-limit-value'] = world.mk_tx([(r, K[0])], [(refmodel.MAX_SASHIMI + 1, K[1])])
        # the same boundary values in other positions of the output list
        out['zero-value-second'] = world.mk_tx([(r, K[0])], [(v - 9, K[1]), (0, K[1])])
        out['zero-value-middle-of-three'] = world.mk_tx([(r, K[0])], [(v - 19, K[1]), (0, K[2]), (10, K[0])])
        out['over-limit-total-three-outputs'] = world.mk_tx([(r, K[0])], [(refmodel.MAX_SASHIMI // 2, K[1])] * 3)
        from skepticoin.datatypes import Input, Transaction, Output
        from skepticoin.signing import SignableEquivalent
        out['placeholder-signature'] = Transaction([Input(r, SignableEquivalent())], [Output(v - 11, K[1].pk)])
        out['no-outputs'] = Transaction([world.mk_tx([(r, K[0])], [(v - 13, K[1])]).inputs[0]], [])
        if len(o0) > 1:
            v2 = U[o0[1]][0]
            out['D-valid-other-output'] = world.mk_tx([(oref(o0[1]), K[0])], [(v2 - 3, K[2])])
    if len(o1) >= 2:
        v = U[o1[0]][0] + U[o1[1]][0]
        out['C-valid-2in'] = world.mk_tx([(oref(o1[0]), K[1]), (oref(o1[1]), K[1])], [(v // 2, K[0]), (v - v // 2 - 3, K[1])])
    if o0 and o1:
        v = U[o0[0]][0] + U[o1[0]][0]
        out['E-overlaps-A-and-C'] = world.mk_tx([(oref(o0[0]), K[0]), (oref(o1[0]), K[1])], [(v - 17, K[2])])
        out['second-input-forged'] = world.mk_tx([(oref(o0[0]), K[0]), (oref(o1[0]), K[2])], [(v - 19, K[2])])
        out['first-input-forged'] = world.mk_tx([(oref(o0[0]), K[2]), (oref(o1[0]), K[1])], [(v - 21, K[2])])
    # an output locked to 64 bytes that are not a curve point: checking any signature against it fails in the key parser, not
    # with a validation error - the submission must still not be pending afterwards
    badk = [r for r, x in sorted(U.items()) if x[1] == K[3].pub]
    if badk:
        out['spends-output-of-invalid-point-key'] = world.mk_tx([(oref(badk[0]), K[0])], [(5, K[1])])
    out['no-inputs'] = world.mk_tx([], [(5, K[1])])
    out['null-reference'] = world.mk_tx([(world.ref(world.NULL32, 0), K[0])], [(5, K[1])])
    # a transaction that is already mined on the active chain
    for n in reversed(H.chain()):
        if len(n.block.transactions) > 1:
            out['already-mined'] = n.block.transactions[1]
            break
    # a spend of an output that exists only on another stored fork
    for p, n in sorted(w.stored.items()):
        if H.anc(n.height) is n if n.height <= H.height else False:
            continue
        for rr, (vv, pk) in sorted(n.utxo.items()):
            if rr not in U and pk in (K[0].pub, K[1].pub, K[4].pub, K[5].pub) and not any(rr in a.utxo for a in H.chain()):
                key = [k for k in K if k.sk is not None and k.pub == pk][0]
                out['other-fork-output'] = world.mk_tx([(oref(rr), key)], [(vv - 1, K[1])])
                break
        if 'other-fork-output' in out:
            break
    return out


def block_menu(w):
    """head changes enabled: name -> universe node"""
    H = w.head()
    out = {}
    for lab in ('e', 'a', 'b', 'c'):
        p = H.path + (lab,)
        if p not in w.stored and w.uni.get(p) is not None:
            out['extend-' + lab] = w.uni.get(p)
    if H.parent is not None:
        for lab in ('e', 'b'):
            p = H.parent.path + (lab,)
            if p not in w.stored and p != H.path and w.uni.get(p) is not None:
                out['sibling-' + lab] = w.uni.get(p)
    # grow a stored side tip (may overtake: reorganisation)
    for p, n in sorted(w.stored.items()):
        if n.height >= 2 and (n.height > H.height or H.anc(n.height) is not n):
            for lab in ('e', 'c'):
                q = p + (lab,)
                if q not in w.stored and w.uni.get(q) is not None:
                    out['grow-side-%s-%s' % ('/'.join(p), lab)] = w.uni.get(q)
                    break
    return out


_inv_cache = {}


def events(w):
    ev = []
    for nm, tx in tx_menu(w).items():
        ev.append(('net:' + nm, 'tx-net', tx))
        if nm in ('A-valid', 'B-conflicts-with-A', 'E-overlaps-A-and-C', 'bad-signature', 'already-mined', 'overspend',
                  'spends-output-of-invalid-point-key'):
            ev.append(('direct:' + nm, 'tx-direct', tx))
    for nm, node in block_menu(w).items():
        ev.append(('relay:' + nm, 'block-relay', node))
        if nm.startswith('extend-a') or nm.startswith('grow'):
            ev.append(('setcs:' + nm, 'block-setcs', node))
        if nm in ('extend-a', 'extend-b'):
            # the same head change through the bulk-download path (the block arrives as the answer to a request)
            ev.append(('bulk:' + nm, 'block-bulk', node))
    # a relayed block that passes the stand-alone checks and fails full validation (the node falls back to its last validated
    # state, which differs from the current one when bulk-download blocks are pending)
    ev.append(('relay:invalid-on-head', 'block-invalid', w.head()))
    pool = w.pool()
    if pool:
        ev.append(('net:resubmit-pooled', 'tx-net', pool[0]))
    return ev


def pool_invariants(w, bad, trace, when):
    H = w.head()
    seen = {}
    for t in w.pool():
        tags = refmodel.validate_tx(t, H.utxo)
        if tags:
            bad.append(('pooled-invalid', "%s: a pending transaction breaks %s at the current head" % (when, sorted(tags)), trace))
        for i in t.inputs:
            k = refmodel.refkey(i.output_reference)
            if k in seen and seen[k] is not t:
                bad.append(('pooled-conflict', "%s: two pending transactions spend the same output" % when, trace))
            seen[k] = t


def step(w, ev, bad, trace):
    name, kind, obj = ev
    H = w.head()
    before = w.pool()
    before_ids = [enc.txid(t) for t in before]
    if kind.startswith('tx'):
        tid = enc.txid(obj)
        tags = refmodel.validate_tx(obj, H.utxo)
        used = {refmodel.refkey(i.output_reference) for t in before for i in t.inputs}
        compatible = not any(refmodel.refkey(i.output_reference) in used for i in obj.inputs)
        admissible = not tags and compatible
        if kind == 'tx-net':
            from skepticoin.networking.messages import DataMessage, DATA_TRANSACTION
            w.peer().send(DataMessage(DATA_TRANSACTION, obj))
        else:
            w.net.current = w.node
            try:
                w.node.cm.add_transaction_to_pool(obj)
            except Exception:
                pass        # "an exception instead of False counts as not admitted"
        after_ids = list(w.pool_ids())
        admitted = tid in after_ids and tid not in before_ids
        if admitted and not admissible:
            bad.append(('inadmissible-admitted', "submission '%s' was admitted although %s" % (
                name, ("it breaks %s" % sorted(tags)) if tags else "it spends an output a pending transaction already spends"), trace))
        if after_ids != before_ids + ([tid] if admitted else []):
            bad.append(('submission-disturbed-pool', "submission '%s' changed other pool entries" % name, trace))
        outcome = 'admitted' if admitted else 'refused'
    elif kind == 'block-invalid':
        from .. import cands
        from skepticoin.networking.messages import DataMessage, DATA_BLOCK
        key = ('inv', obj.path)
        if key not in _inv_cache:
            cl = [c for c in cands.c01_candidates(obj, w.uni) if c.name == 'signed-by-foreign-key' and c.wire() is not None]
            _inv_cache[key] = cl[0] if cl else None
        c = _inv_cache[key]
        if c is None:
            return 'no-candidate'
        w.net.clock.t = max(w.net.clock.t, c.now or 0, c.block.timestamp)
        w.peer().send(DataMessage(DATA_BLOCK, world.from_wire(c.block)))
        if enc.blockid(c.block) in w.node.cm.coinstate.block_by_hash:
            bad.append(('invalid-block-entered-state', "a relayed block signed by a foreign key entered chain state", trace))
            return 'invalid-entered'
        w.resync()
        H2 = w.head()
        outcome = 'invalid-rejected'
        if w.node.cm.coinstate.current_chain_hash != H2.bid:
            outcome += '+head-differs'
        after_ids = [enc.txid(t) for t in w.pool()]
        if any(i not in before_ids for i in after_ids):
            bad.append(('pool-grew-on-head-change', "rejected block '%s' added transactions to the pool" % name, trace))
        still = [enc.txid(t) for t in before if not refmodel.validate_tx(t, H2.utxo)]
        if [i for i in still if i not in after_ids] and '+head-differs' not in outcome:
            bad.append(('valid-transaction-evicted', "the rejection of '%s' evicted pending transactions that are still valid at the "
                        "head" % name, trace))
    else:
        node = obj
        if kind in ('block-relay', 'block-bulk'):
            from skepticoin.networking.messages import DataMessage, DATA_BLOCK
            w.net.clock.t = max(w.net.clock.t, node.ts)
            w.peer().send(DataMessage(DATA_BLOCK, world.from_wire(node.block)), in_response_to=0 if kind == 'block-relay' else 77)
        else:
            w.net.current = w.node
            cs = w.node.cm.coinstate
            try:
                w.node.cm.set_coinstate(cs.add_block(node.block, node.ts + 1))
            except Exception:
                pass
        if node.bid in w.node.cm.coinstate.block_by_hash:
            w.stored[node.path] = node
            w.fc.add(node)
            outcome = 'stored'
        else:
            outcome = 'block-refused'
        H2 = w.head()
        if w.node.cm.coinstate.current_chain_hash != H2.bid:
            # fork choice itself is C04's subject; follow the implementation so the pool oracle stays meaningful
            outcome += '+head-differs'
        after = w.pool()
        after_ids = [enc.txid(t) for t in after]
        if any(i not in before_ids for i in after_ids):
            bad.append(('pool-grew-on-head-change', "head change '%s' added transactions to the pool" % name, trace))
        still = [enc.txid(t) for t in before if not refmodel.validate_tx(t, H2.utxo)]
        lost = [i for i in still if i not in after_ids]
        if lost and '+head-differs' not in outcome:
            bad.append(('valid-transaction-evicted', "head change '%s' (%s -> %s) evicted %d pending transaction(s) that are still "
                        "valid at the new head" % (name, '/'.join(H.path), '/'.join(H2.path), len(lost)), trace))
    if w.net.escaped:
        bad.append(('exception-escaped', "operation '%s': %s" % (name, w.net.escaped[0]), trace))
        w.net.escaped.clear()
    if '+head-differs' not in outcome:
        pool_invariants(w, bad, trace, "after '%s'" % name)
    return outcome


def execute(trace):
    w = World()
    bad = []
    outcome = None
    for i, nm in enumerate(trace):
        evs = {e[0]: e for e in events(w)}
        if nm not in evs:
            return w, None, None
        outcome = step(w, evs[nm], bad, tuple(trace[:i + 1]))
    return w, bad, outcome


def canon(w):
    cs = w.node.cm.coinstate
    lkv = getattr(w.node.cm, 'last_known_valid_coinstate', None)
    # (the last validated state is what the node falls back to: part of the state as far as future behaviour goes)
    return (frozenset(cs.block_by_hash.keys()), cs.current_chain_hash, w.pool_ids(),
            lkv.current_chain_hash if lkv is not None else None)


PROBES = ('net:A-valid', 'net:C-valid-2in', 'direct:E-overlaps-A-and-C', 'relay:extend-a', 'relay:extend-e')
PROBE_DEPTH = {'quick': 2, 'thorough': 3}


def _expand(arg):
    trace, probe = arg
    w, _, _ = execute(trace)
    names = [e[0] for e in events(w)]
    key0 = canon(w)
    res = []
    base = {}
    noeffect = []
    for nm in names:
        t2 = tuple(trace) + (nm,)
        w2, bad, outcome = execute(t2)
        if bad is None:
            continue
        k2 = canon(w2)
        res.append((nm, k2, [b for b in bad if b[2] == t2], outcome, len(w2.pool())))
        base[nm] = (outcome, k2)
        if k2 == key0:
            noeffect.append(nm)
    # operations without a visible effect must not leave an invisible one: the same probe operations must behave exactly as
    # they do without the no-effect operation in front of them (differential against the sibling transition)
    nprobe = 0
    if probe:
        for nm in noeffect:
            for p in PROBES:
                if p not in base or p == nm:
                    continue
                t3 = tuple(trace) + (nm, p)
                w3, bad3, out3 = execute(t3)
                if bad3 is None:
                    continue
                nprobe += 1
                if (out3, canon(w3)) != base[p]:
                    res.append((nm, key0, [('no-effect-operation-left-a-trace', "after '%s' (which changed nothing observable) the "
                                            "operation '%s' ends %s, without it %s" % (nm, p, out3, base[p][0]), t3)], 'probe', 0))
    return trace, res, nprobe


def big_pool_scenario(which):
    """three pending transactions of ~88 kB each (1,200 outputs): together they do not fit in a block.  The node's miner asks
    for work, a block confirming ONE of them extends the head, the miner asks again: after every step the pool holds exactly
    the pending transactions that are still valid (what the miner can fit in a block is the miner's business - C12)"""
    import os
    from .. import minerutil
    from skepticoin import mining
    from skepticoin.networking.messages import DataMessage, DATA_BLOCK
    w = World()
    seams.rebind(mining, 'time', w.net.clock)
    d = os.path.join(os.getcwd(), 'c13-%d' % os.getpid())
    os.makedirs(d, exist_ok=True)
    os.chdir(d)
    H = w.head()
    bad = []
    srcs = [(r, K[0]) for r in owned(H.utxo, K[0])][:2] + [(r, K[1]) for r in owned(H.utxo, K[1])][:2]
    srcs = [(r, k) for r, k in srcs if H.utxo[r][0] > 5000][:3]
    if len(srcs) < 3:
        return [('harness', 'base state has fewer than three spendable outputs', ('big-pool',))]
    txs = []
    for n_, (r, k) in enumerate(srcs):
        v = H.utxo[r][0]
        txs.append(world.mk_tx([(oref(r), k)], [(1 + n_, K[2])] * 1199 + [(v - 1199 * (1 + n_) - 7, k)]))
    trace = ['big-pool']
    for t in txs:
        w.node.cm.add_transaction_to_pool(t)
    ids = [enc.txid(t) for t in txs]
    size = sum(len(enc.enc_tx(t)) for t in txs)
    if list(w.pool_ids()) != ids:
        return [('harness', 'the three large transactions were not admitted', tuple(trace))]
    mw = minerutil.make_watcher(w.node, w.node.cm.coinstate, [K[6], K[7]])

    def request(tag):
        trace.append(tag)
        try:
            mw.handle_request_scrypt_input_message(0, 7)
        except Exception:
            pass                  # (a candidate that cannot be built is C12's concern)
    request('work request with %d bytes pending' % size)
    if list(w.pool_ids()) != ids:
        bad.append(('valid-pending-transaction-lost', "after a miner's work request the pool holds %d of the %d pending transactions, "
                    "all still valid" % (len(w.pool_ids()), len(ids)), tuple(trace)))
    pool_invariants(w, bad, tuple(trace), 'after work request')
    conf = txs[which]
    blk = world.assemble(H, [conf], K[5], H.ts + 120, cb_data=b'confirms one')
    w.net.clock.t = max(w.net.clock.t, H.ts + 200)
    trace.append('block confirming pending transaction %d' % which)
    w.peer().send(DataMessage(DATA_BLOCK, world.from_wire(blk)))
    nd = world.Node(blk, H, path=H.path + ('confirm',))
    if w.node.cm.coinstate.current_chain_hash != nd.bid:
        return bad + [('harness', 'confirming block not adopted', tuple(trace))]
    w.fc.add(nd)
    w.stored[nd.path] = nd
    exp = [i for i in ids if i != enc.txid(conf)]
    if sorted(w.pool_ids()) != sorted(exp):
        bad.append(('pool-after-head-change', "after a block confirming one of three large pending transactions the pool holds %d "
                    "transactions, %d are still valid" % (len(w.pool_ids()), len(exp)), tuple(trace)))
    request('second work request')
    if sorted(w.pool_ids()) != sorted(exp):
        bad.append(('valid-pending-transaction-lost', "after the second work request the pool holds %d transactions, %d are still "
                    "valid" % (len(w.pool_ids()), len(exp)), tuple(trace)))
    pool_invariants(w, bad, tuple(trace), 'after second work request')
    if w.net.escaped:
        bad.append(('node-exception', "node handler: %s" % (w.net.escaped[0],), tuple(trace)))
    return bad


def run(ctx):
    setup_worker()
    depth = 4 if ctx.quick else 6
    w, _, _ = execute(())
    seen = {canon(w)}
    frontier = [()]
    stats = {'states': 1, 'transitions': 0}
    hist = {}
    maxpool = 0
    sample = None
    for d in range(depth):
        if ctx.seed:
            import random
            random.Random(ctx.seed + d).shuffle(frontier)
        res = ctx.pmap(_expand, [(f, d < PROBE_DEPTH[ctx.tier]) for f in frontier])
        nxt = []
        for trace, lst, nprobe in sorted(res, key=lambda r: r[0]):
            stats['probes'] = stats.get('probes', 0) + nprobe
            for nm, key, bad, outcome, npool in lst:
                if outcome == 'probe':
                    for k, what, tr in bad:
                        ctx.violation(k, "%s; operations %s" % (what, list(tr)), {'trace': list(tr), 'probe': True})
                    continue
                stats['transitions'] += 1
                gen = nm.split(':')[0] + ':' + nm.split(':')[1].split('-side-')[0]
                e = hist.setdefault(gen, {})
                e[outcome] = e.get(outcome, 0) + 1
                maxpool = max(maxpool, npool)
                for k, what, tr in bad:
                    ctx.violation(k, "%s; operations %s" % (what, list(tr)), {'trace': list(tr)})
                if key not in seen:
                    seen.add(key)
                    stats['states'] += 1
                    nxt.append(tuple(trace) + (nm,))
                    sample = list(trace) + [nm]
        frontier = nxt
        ctx.log("depth", d + 1, "new states", len(nxt))
    for which, bp in zip((0, 1, 2), ctx.pmap(big_pool_scenario, [0, 1, 2])):
        stats['transitions'] += 3
        for k, what, tr in bp:
            ctx.violation(k, "%s; operations %s" % (what, list(tr)), {'big_pool': which})
    # ---- the schedule dimension: admission, head change and an observer as separate threads on the real chain manager;
    #      and the pool after the miner thread and the networking thread raced
    thr = thrscen.run(ctx, 'C13', 2 if ctx.quick else 3)
    thr2 = thrscen.run(ctx, 'MN', 1 if ctx.quick else 2, names=['found-vs-valid-sibling-delivery', 'found-vs-invalid-delivery', 'found-vs-transaction-delivery'], only=['C13:'])
    thr2_c = thrscen.run(ctx, 'MNc', 2 if ctx.quick else 3, names=['found-vs-valid-sibling-delivery', 'found-vs-invalid-delivery', 'found-vs-transaction-delivery'], only=['C13:'])   # coarser points, one preemption more
    ctx.cov['thread_schedules_coarse'] = thr2_c
    ctx.cov['thread_schedules'] = {'chain_manager': thr, 'miner_vs_networking': thr2}
    ctx.cov.update({
        'states': stats['states'], 'transitions': stats['transitions'], 'traces_validated_against_impl': stats['transitions'],
        'samples': [sample or []] + [list(f) for f in frontier[:2]], 'outcome_histogram': hist, 'largest_pool': maxpool,
        'no_trace_probes': stats.get('probes', 0),
        'depth': depth, 'exhaustive': True,
        'rule': "BFS over operation sequences to depth %d (submissions via the network handler and via add_transaction_to_pool; "
                "head changes via relayed blocks, via blocks answering a request (bulk path) and via set_coinstate), state = history replayed on a fresh node, de-duplicated "
                "on (stored blocks, head, ordered pool ids); reference pool rules checked after every operation" % depth,
    })


def replay(data, ctx):
    if 'thread_scenario' in data:
        return thrscen.replay(data)
    if 'big_pool' in data:
        setup_worker()
        return [(k, w_) for k, w_, _ in big_pool_scenario(data['big_pool'])]
    setup_worker()
    t = tuple(data['trace'])
    if data.get('probe'):
        w1, b1, o1 = execute(t)
        w0, b0, o0 = execute(t[:-2] + t[-1:])
        if b1 is not None and b0 is not None and (o1, canon(w1)) != (o0, canon(w0)):
            return [('no-effect-operation-left-a-trace', 'reproduced')]
        return []
    w, bad, outcome = execute(t)
    if bad is None:
        return []
    return [(k, what) for k, what, tr in bad if tuple(tr) == t]
