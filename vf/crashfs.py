"""Snapshotting file layer.  `open` / `os` are rebound in the namespace of a module under test; files are real
files in the scratch cwd.  The on-disk view is snapshotted at every operation boundary: after open-truncate, after
every *raw* write (the point where Python's user-space buffer reaches the kernel), after close, after replace /
remove.  A process crash at any instant leaves exactly one of these views (unflushed user-space data is lost)."""
import builtins
import io
import os as _os

from . import seams


class Recorder:
    def __init__(self, watch):
        self.watch = list(watch)      # file names (cwd relative) that make up the view
        self.snaps = []               # list of (label, {name: bytes or None})
        self.active = True

    def view(self):
        v = {}
        for n in self.watch:
            try:
                with builtins.open(n, 'rb') as f:
                    v[n] = f.read()
            except FileNotFoundError:
                v[n] = None
        return v

    def snap(self, label):
        if self.active:
            self.snaps.append((label, self.view()))

    def reset(self):
        self.snaps = []


class _Raw(io.FileIO):
    def __init__(self, rec, name, mode, opener=None):
        super().__init__(name, mode, opener=opener)
        self._rec = rec
        self._nm = name
        rec.snap('open(%s,%s)' % (name, mode))

    def write(self, b):
        n = super().write(b)
        self._rec.snap('write(%s,%d)' % (self._nm, n or 0))
        return n

    def close(self):
        was = self.closed
        super().close()
        if not was:
            self._rec.snap('close(%s)' % self._nm)


def make_open(rec):
    def crash_open(file, mode='r', *a, **k):
        if ('w' in mode or 'a' in mode or '+' in mode or 'x' in mode) and isinstance(file, str):
            raw = _Raw(rec, file, mode.replace('b', '').replace('t', ''), k.get('opener'))
            buf = io.BufferedWriter(raw, io.DEFAULT_BUFFER_SIZE)
            if 'b' in mode:
                return buf
            return io.TextIOWrapper(buf, encoding=k.get('encoding'), newline=k.get('newline'))
        return builtins.open(file, mode, *a, **k)
    return crash_open


class OsProxy:
    def __init__(self, rec):
        self._rec = rec
        self.path = _os.path

    def replace(self, a, b):
        _os.replace(a, b)
        self._rec.snap('replace(%s,%s)' % (a, b))

    def rename(self, a, b):
        _os.rename(a, b)
        self._rec.snap('rename(%s,%s)' % (a, b))

    def remove(self, a):
        _os.remove(a)
        self._rec.snap('remove(%s)' % a)

    unlink = remove

    def __getattr__(self, name):
        return getattr(_os, name)


def install(module, rec):
    """module.open / module.os -> snapshotting wrappers"""
    if not hasattr(module, 'os'):
        raise seams.HarnessError("seam %s.os missing" % module.__name__)
    module.open = make_open(rec)
    module.os = OsProxy(rec)
    seams.INSTALLED.append('%s.open/os' % module.__name__)
