"""Preemption-bounded exhaustive exploration of thread interleavings of the real code (iterative context bounding).

An *execution* runs a small set of thread bodies (real `threading.Thread`s executing real skepticoin code) under a
cooperative scheduler: exactly one thread holds the baton at any time; it hands the baton over only at *scheduling
points*, which are

  * every `line` event (or every function entry, per file) that `sys.settrace` reports for code in the files named in
    `trace` -- i.e. between any two source lines of the shared-state code a switch to another thread is considered,
  * acquiring a `VLock` that is held (the thread blocks; this switch is forced, not a preemption),
  * the end of a thread body (forced).

A schedule is the list of choices made at those points; choice 0 is always "keep running the current thread" (or the
lowest enabled thread id at a forced point).  `explore` enumerates, depth-first, every schedule with at most `bound`
preemptions (a switch away from a thread that could have continued), exactly as in CHESS: all executions run to
completion, the choice list of an execution is extended only at positions after its replayed prefix.

Locks: the library's `threading.Lock` objects must be `VLock`s (rebind the module-level name before the objects are
constructed, or assign the attribute afterwards), otherwise a thread that blocks on a real lock while the holder waits
for the baton would hang; the controller detects such a hang by a wall-clock timeout and raises `HarnessError`.

Determinism: replaying a recorded schedule must visit the same (thread, file:line) labels; a divergence while
replaying a prefix is a hard error (`HarnessError`), never a reported violation.
"""
import os
import sys
import threading

from .seams import HarnessError

CURRENT = None          # the scheduler of the execution in progress (VLock consults it)


class Abort(BaseException):
    """raised inside scheduled threads to unwind them after a deadlock / at the horizon"""


class VLock:
    """Drop-in for threading.Lock whose blocking is visible to the scheduler."""

    def __init__(self):
        self.owner = None

    def acquire(self, blocking=True, timeout=-1):
        s = CURRENT
        me = s.running if s is not None and s.active else 'outside'
        while self.owner is not None:
            if not blocking or s is None or not s.active:
                if blocking:
                    raise HarnessError("VLock held by %r acquired (blocking) outside a scheduled execution" % (self.owner,))
                return False
            s.block(me, self)
        self.owner = me
        return True

    def release(self):
        if self.owner is None:
            raise RuntimeError("release unlocked lock")
        self.owner = None

    def locked(self):
        return self.owner is not None

    __enter__ = acquire

    def __exit__(self, *a):
        self.release()


class Point:
    __slots__ = ('running', 'order', 'choice', 'label', 'forced')

    def __init__(self, running, order, choice, label, forced):
        self.running, self.order, self.choice, self.label, self.forced = running, order, choice, label, forced


class Execution:
    """One run of the bodies under the schedule `prefix` (then default choices)."""

    def __init__(self, bodies, trace, prefix=(), labels=None, horizon=20000, timeout=30.0):
        self.bodies = bodies
        self.n = len(bodies)
        # trace: {absolute filename: 'line' | 'call'}
        self.trace = trace
        self.prefix = list(prefix)
        self.expect = labels
        self.horizon = horizon
        self.timeout = timeout
        self.points = []
        self.finished = [False] * self.n
        self.waiting = [None] * self.n
        self.outcome = [None] * self.n
        self.batons = [threading.Semaphore(0) for _ in range(self.n)]
        self.done = threading.Semaphore(0)
        self.running = None
        self.active = False
        self.aborted = None
        self.deadlock = False

    # ---- scheduling core (always executed by the thread that holds the baton)
    def _enabled(self):
        return [j for j in range(self.n) if not self.finished[j] and
                (self.waiting[j] is None or self.waiting[j].owner is None)]

    def _choose(self, running, order, label, forced):
        k = len(self.points)
        if k >= self.horizon:
            self._abort('horizon of %d scheduling points reached' % self.horizon)
            raise Abort()
        c = self.prefix[k] if k < len(self.prefix) else 0
        if c >= len(order):
            self._abort('replay diverged: choice %d of %d at point %d (%r)' % (c, len(order), k, label), harness=True)
            raise Abort()
        if self.expect is not None and k < len(self.expect) and self.expect[k] != (running, label):
            self._abort('replay diverged at point %d: expected %r, at %r' % (k, self.expect[k], (running, label)), harness=True)
            raise Abort()
        self.points.append(Point(running, order, c, label, forced))
        return order[c]

    def _switch(self, me, nxt):
        if nxt == me:
            return
        self.running = nxt
        self.batons[nxt].release()
        self.batons[me].acquire()
        if self.aborted:
            raise Abort()

    def point(self, me, label):
        en = self._enabled()
        order = [me] + [j for j in en if j != me]
        nxt = self._choose(me, order, label, False)
        self._switch(me, nxt)

    def block(self, me, lock):
        """`me` cannot take `lock`: switch to another enabled thread (forced)"""
        self.waiting[me] = lock
        en = self._enabled()
        if not en:
            self.deadlock = True
            self._abort('deadlock: every unfinished thread waits for a lock')
            raise Abort()
        nxt = self._choose(me, en, ('blocked',), True)
        self._switch(me, nxt)
        self.waiting[me] = None

    def _abort(self, why, harness=False):
        if self.aborted:
            return
        self.aborted = ('HARNESS: ' if harness else '') + why
        for j in range(self.n):
            self.batons[j].release()
        self.done.release()

    # ---- tracing
    def _global_tracer(self, frame, event, arg):
        mode = self.trace.get(frame.f_code.co_filename)
        if mode is None:
            return None
        if isinstance(mode, tuple):
            if mode[0].endswith('-only'):
                # (mode + '-only', names of the only functions with scheduling points)
                if frame.f_code.co_name not in mode[1]:
                    return None
                mode = mode[0][:-5]
            else:
                # (mode, names of functions executed atomically)
                if frame.f_code.co_name in mode[1]:
                    return None
                mode = mode[0]
        if mode == 'call':
            self.point(self.running, (os.path.basename(frame.f_code.co_filename), frame.f_code.co_name))
            return None
        if mode == 'opcode':
            frame.f_trace_opcodes = True
        return self._local_tracer

    def _local_tracer(self, frame, event, arg):
        if event == 'line' or event == 'opcode':
            self.point(self.running, (os.path.basename(frame.f_code.co_filename), frame.f_lineno) if event == 'line' else
                       (os.path.basename(frame.f_code.co_filename), frame.f_lineno, frame.f_lasti))
        return self._local_tracer

    def _thread(self, i):
        self.batons[i].acquire()
        if self.aborted:
            return
        sys.settrace(self._global_tracer)
        try:
            try:
                self.outcome[i] = ('ok', self.bodies[i]())
            finally:
                sys.settrace(None)
        except Abort:
            self.outcome[i] = ('aborted', None)
            return
        except BaseException as e:
            self.outcome[i] = ('exc', e)
        self.finished[i] = True
        if self.aborted:
            return
        en = self._enabled()
        if not en:
            if not all(self.finished):
                self.deadlock = True
                self._abort('deadlock: every unfinished thread waits for a lock')
            else:
                self.done.release()
            return
        try:
            nxt = self._choose(None, en, ('finished', i), True)
        except Abort:
            return
        self.running = nxt
        self.batons[nxt].release()

    def run(self):
        global CURRENT
        if CURRENT is not None and CURRENT.active:
            raise HarnessError("nested scheduled executions")
        CURRENT = self
        self.active = True
        ths = [threading.Thread(target=self._thread, args=(i,), daemon=True) for i in range(self.n)]
        for t in ths:
            t.start()
        try:
            order = list(range(self.n))
            first = self._choose(None, order, ('start',), True)
        except Abort:
            first = None
        if first is not None:
            self.running = first
            self.batons[first].release()
        if not self.done.acquire(timeout=self.timeout):
            self.active = False
            CURRENT = None
            raise HarnessError("scheduled execution hung (a real lock held across a scheduling point?) after points %r" % (
                [(p.running, p.label) for p in self.points[-6:]],))
        for t in ths:
            t.join(self.timeout)
        self.active = False
        CURRENT = None
        if self.aborted and self.aborted.startswith('HARNESS'):
            raise HarnessError(self.aborted)
        return self

    # ---- views
    def choices(self):
        return [p.choice for p in self.points]

    def labels(self):
        return [(p.running, p.label) for p in self.points]

    def preemptions_before(self, i):
        return sum(1 for p in self.points[:i] if not p.forced and p.choice != 0)

    def switches(self):
        """compact description of the schedule: [(point index, from thread, label, to thread)] for every non-default choice"""
        return [(k, p.running, list(p.label), p.order[p.choice]) for k, p in enumerate(self.points) if p.choice != 0]


class VRLock(VLock):
    """re-entrant variant"""

    def __init__(self):
        VLock.__init__(self)
        self.count = 0

    def acquire(self, blocking=True, timeout=-1):
        s = CURRENT
        me = s.running if s is not None and s.active else 'outside'
        if self.owner == me and self.count:
            self.count += 1
            return True
        r = VLock.acquire(self, blocking, timeout)
        if r:
            self.count = 1
        return r

    def release(self):
        self.count -= 1
        if self.count == 0:
            VLock.release(self)

    __enter__ = acquire


class _ThreadingShim:
    """stands in for the `threading` module inside a library module: locks become scheduler-visible"""
    Lock = VLock
    RLock = VRLock

    def __getattr__(self, name):
        return getattr(threading, name)


shim = _ThreadingShim()


def explore(make, trace, bound, check, limit=None, stats=None, roots=None, children_only=False):
    """Enumerate every schedule of the bodies returned by `make()` with at most `bound` preemptions.

    make()  -> (bodies, context)      fresh real objects for one execution
    check(execution, context) -> None evaluate the oracle on the completed execution
    Returns the number of executions.  `limit` (None = no cap) caps executions; hitting it is reported in stats['capped'].
    """
    stats = stats if stats is not None else {}
    stats.setdefault('executions', 0)
    stats.setdefault('points_max', 0)
    stats.setdefault('capped', False)
    # a stack entry is (choices, labels the parent execution visited at those points): a replayed prefix that visits
    # other labels is a hard error
    stack = [(list(r[0]), r[1]) if isinstance(r, tuple) else (list(r), None) for r in roots] if roots is not None else [([], None)]
    kids = []
    while stack:
        prefix, expect = stack.pop()
        if limit is not None and stats['executions'] >= limit:
            stats['capped'] = True
            break
        bodies, cx = make()
        try:
            x = Execution(bodies, trace, prefix, expect).run()
        except HarnessError as e:
            if 'replay diverged' not in str(e):
                raise
            # the same choices led somewhere else than in the parent execution: the code under test carries state from one
            # execution to the next (the harness builds fresh objects every time).  That sub-tree cannot be enumerated
            # soundly; it is skipped and counted, and the caller must not report a clean verdict (see vf.run).
            stats['diverged'] = stats.get('diverged', 0) + 1
            continue
        stats['executions'] += 1
        stats['points_max'] = max(stats['points_max'], len(x.points))
        if x.deadlock:
            stats['deadlocks'] = stats.get('deadlocks', 0) + 1
        check(x, cx)
        ch = x.choices()
        lb = x.labels()
        for i in range(len(x.points) - 1, len(prefix) - 1, -1):
            p = x.points[i]
            cost = x.preemptions_before(i)
            if not p.forced:
                cost += 1
            if cost > bound:
                continue
            for alt in range(1, len(p.order)):
                (kids if children_only else stack).append((ch[:i] + [alt], lb[:i + 1]))
    return kids if children_only else stats['executions']


def replay(make, trace, choices, labels=None):
    bodies, cx = make()
    x = Execution(bodies, trace, choices, labels).run()
    return x, cx


def files(*mods, mode='line'):
    """trace table for the given modules"""
    out = {}
    for m in mods:
        if isinstance(m, tuple):
            m, md = m
        else:
            md = mode
        out[m.__file__] = md
    return out
