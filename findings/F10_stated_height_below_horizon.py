"""a block ABOVE the checkpoint horizon that states a height below it skips every in-chain check (shipped horizon 163000)"""
import ecdsa, hashlib
import skepticoin.consensus as consensus
from skepticoin.coinstate import CoinState
from skepticoin.consensus import construct_block_for_mining, construct_reference_to_thin_air, calc_merkle_root_hash
from skepticoin.datatypes import Block, BlockHeader, BlockSummary, Input, Output, OutputReference, PowEvidence, Transaction
from skepticoin.signing import CoinbaseData, SECP256k1PublicKey, SECP256k1Signature

HORIZON = 2
consensus.MAX_KNOWN_HASH_HEIGHT = HORIZON       # scaled stand-in for 163000
consensus.KNOWN_HASHES = {}
consensus.scrypt = lambda password, salt, *a, **k: hashlib.blake2b(password + salt, digest_size=32).digest()

def key(n):
    sk = ecdsa.SigningKey.from_secret_exponent(n, curve=ecdsa.SECP256k1)
    return SECP256k1PublicKey(sk.verifying_key.to_string())

victim, thief = key(11), key(12)
cs = CoinState.zero()
ts = cs.head().timestamp
for h in range(1, 5):                            # honest chain to height 4 (> horizon), fully validated above the horizon
    ts += 10
    for nonce in range(100000):
        b = construct_block_for_mining(cs, [], victim, ts, b'honest', nonce)
        if b.hash() < b.target:
            break
    cs = cs.add_block(b, ts)
head = cs.head()
assert head.height == 4 > HORIZON
coin = OutputReference(head.transactions[0].hash(), 0)      # the victim's 10 coin from block 4
assert coin in cs.at_head.unspent_transaction_outs

# the thief's block: builds on the head (true height 5), STATES height 1, maximum target, no evidence worth the name, spends the
# victim's coin with a garbage signature
steal = Transaction([Input(coin, SECP256k1Signature(b'\x01' * 64))], [Output(10 * 10**8, thief)])
reward = Transaction([Input(construct_reference_to_thin_air(), CoinbaseData(1, b'thief'))], [Output(10 * 10**8, thief)])
txs = [reward, steal]
for nonce in range(10):
    summary = BlockSummary(1, head.hash(), calc_merkle_root_hash(txs), ts + 1, b'\xff' * 32, nonce)
    blk = Block(BlockHeader(summary, PowEvidence(b'\x00' * 32, b'\x00' * 32, b'\x00' * 32)), txs)
    if blk.hash() < blk.target:
        break
try:
    cs2 = cs.add_block(Block.deserialize(blk.serialize()), ts + 5)
except Exception as e:
    print("refused:", type(e).__name__, e)
    raise SystemExit(0)
print("ACCEPTED: head is now the thief's block:", cs2.head().hash() == blk.hash(), "stated height", cs2.head().height)
print("victim's coin still unspent:", coin in cs2.at_head.unspent_transaction_outs)
raise SystemExit(1)
