#!/usr/bin/env python3
"""tools/seedprompt.py <ID> <worktree> <outdir>: the text handed to a fresh sub-agent that is to write one
property-breaking change.  It contains the property (verbatim from properties.jsonl), the agent's private worktree, and -
so that waves do not repeat each other - one line per mechanism already used for this property (seed directory names and
their 'needs' lines; nothing about how anything is checked)."""
import json, os, sys
pid, wt, out = sys.argv[1:4]
prop = [json.loads(l) for l in open('/verif/properties.jsonl') if json.loads(l)['id'] == pid][0]
used = []
for d in sorted(os.listdir('/verif/seeded')):
    m = os.path.join('/verif/seeded', d, 'meta.json')
    if d.startswith(pid + '-') and os.path.exists(m):
        used.append('- %s (needs: %s)' % (d[len(pid) + 1:].replace('-', ' '), json.load(open(m)).get('needs_to_manifest', '?')[:160]))
print(f"""You are helping to evaluate a verification effort for skepticoin (a small pure-Python Bitcoin-style cryptocurrency node).
Your job: write ONE realistic change to the source under {wt}/skepticoin/ that BREAKS the property below while the code still
imports and the repository's own test suite still passes, plus a demonstration program that shows the breakage.

Work ONLY inside {wt} (a private git worktree of the repository, at the current HEAD) and write your results to {out}/.
Do not read or touch /verif or /repo. Do not commit anything.

THE PROPERTY ({prop['id']}: {prop['title']})
Statement: {prop['statement']}
Quantified over: {prop['quantifier']['text']}
Anchored in: {json.dumps(prop['anchors'])}

WHAT KIND OF CHANGE
- It must look like something a developer could plausibly commit: an optimisation (a cache, a memo, a fast path, a shared buffer),
  a refactoring that subtly changes behaviour, an off-by-one at a boundary, a check moved to the wrong place or the wrong state,
  a lock narrowed, an error path that forgets to undo something, two sites that each look fine alone.
- It must need something SPECIFIC to manifest: a particular interleaving or arrival order, a crash or fault at a particular point,
  a multi-step sequence of operations, an unusual input or boundary value, a fork / reorganisation, a second call on the same
  object, a long-lived process that has seen other data before. NOT something ordinary use would expose at once, and NOT something
  the existing tests catch.
- It must genuinely violate the property as stated (read the statement carefully: e.g. "accepted only if" properties are broken by
  accepting something bad, not by rejecting something good, unless the statement also promises acceptance).
- Small: typically 5-40 changed lines in one to three files. No new dependencies. Do not edit tests.
- Mechanisms ALREADY USED for this property in earlier rounds - choose something clearly DIFFERENT in mechanism and in the place it
  touches (different function or different triggering condition):
{chr(10).join(used) if used else '- (none yet)'}

HOW TO WORK
1. Read the anchored code in {wt}/skepticoin (and whatever else you need: docs, tests, scripts).
2. Make the change in the worktree.
3. Run the repository's tests from the worktree root: `cd {wt} && /venv/bin/python -m pytest -q -x -p no:cacheprovider` - they must all
   still pass (64 passed, 1 skipped is the baseline; takes a few minutes).
4. Write {out}/demo.py: a stand-alone program run as `cd <some empty scratch dir> && PYTHONPATH=<tree> /venv/bin/python {out}/demo.py`
   that exits 0 on the UNCHANGED tree and exits 1 (printing what went wrong) on the CHANGED tree. It must be deterministic. Notes:
   importing skepticoin.blockstore creates chain.db in the current directory, so run from a scratch directory; real proof of work
   costs ~137 ms per scrypt call - for chains of your own you may rebind `skepticoin.consensus.scrypt` to a fast stand-in and set
   `skepticoin.consensus.MAX_KNOWN_HASH_HEIGHT = -1; skepticoin.consensus.KNOWN_HASHES = {{}}` in the demo so that full validation applies
   to short chains (full validation is skipped at or below height 163000 otherwise); use a large target for cheap mining.
   Verify both: `git stash` (or `git diff > {out}/patch.diff && git checkout -- .`) to test the unchanged tree, then re-apply.
5. Write {out}/patch.diff (`cd {wt} && git diff > {out}/patch.diff`, applying cleanly with `git apply` to the unchanged HEAD) and
   {out}/README.txt: what the change is, which clause of the property it breaks, and exactly what is needed for it to manifest.
6. Leave the worktree with the change applied or not - it will be deleted.

Your final message: one paragraph - the mechanism, the files touched, what it needs to manifest, and the confirmed results of
the tests and of the demo on both trees. If, while reading, you notice something in the UNCHANGED code that already violates the
property, say so at the end (one or two sentences, with the function name) - but still deliver a seeded change.""")
