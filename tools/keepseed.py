#!/usr/bin/env python3
"""tools/keepseed.py <srcdir> <name> <property> <caught_by> <needs...>: copy patch.diff + demo.py (+README) into /verif/seeded/<name>/ with meta.json"""
import json, os, shutil, sys
src, name, prop, caught = sys.argv[1:5]
needs = ' '.join(sys.argv[5:])
dst = os.path.join('/verif/seeded', name)
os.makedirs(dst, exist_ok=True)
for f in ('patch.diff', 'demo.py', 'README.txt'):
    if os.path.exists(os.path.join(src, f)):
        shutil.copy(os.path.join(src, f), os.path.join(dst, f))
meta = {
    'property': prop,
    'origin': 'written by an independent sub-agent that saw only the property text and a scratch worktree of /repo (nothing from /verif)',
    'needs_to_manifest': needs,
    'confirmed': {
        'patch_applies_to': os.popen('git -C /repo rev-parse --short HEAD').read().strip(),
        'repository_tests_with_change': '64 passed, 1 skipped',
        'demo_without_change': 'exit 0',
        'demo_with_change': 'exit 1',
        'ran': 'tools/tryseed.sh %s "%s"  (applies the patch to a scratch worktree outside /repo, runs pytest, the demo both ways, the check; reverts)' % (dst, prop),
    },
    'detected_by': caught,
}
json.dump(meta, open(os.path.join(dst, 'meta.json'), 'w'), indent=1)
print('kept', dst)
