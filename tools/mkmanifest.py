#!/usr/bin/env python3
"""Regenerates /verif/MANIFEST.json from the table below (one entry per claimed property)."""
import json
import os

HERE = os.path.dirname(os.path.dirname(os.path.abspath(__file__)))

MC = 'model_checking'
FE = 'fault_enumeration'
EX = 'exploration'

# id: (category, technique, level text, level note, design ref)
CHECKS = {
    'C16': (EX, "exhaustive enumeration of the whole input domain (every height) against a closed-form reference",
            "Complete enumeration: get_block_subsidy is evaluated at every one of the 33.6 million heights up to one "
            "full era past exhaustion and at every era boundary up to 2^32-1 and beyond, compared with the closed-form "
            "schedule, checked for monotonicity, summed (= documented maximum) and compared with docs/params.md. "
            "Nothing is sampled, so the verdict is a statement about all inputs.",
            "Trusts the closed-form schedule written in the check (10^9 >> (h // 1,050,000)) and the regexes that read "
            "docs/params.md.", "DESIGN.md section 4, C16"),
}

NOT_YET = "check not built yet in this revision of /verif (work in progress; see DESIGN.md section 4)"

ALL = ['C%02d' % i for i in range(1, 21)]


def main():
    checks = []
    for pid in ALL:
        if pid not in CHECKS:
            continue
        cat, tech, text, note, ref = CHECKS[pid]
        checks.append({
            'property_id': pid,
            'quick_cmd': './check %s --tier quick' % pid,
            'thorough_cmd': './check %s --tier thorough' % pid,
            'evidence_file': '/verif/evidence/%s.json' % pid,
            'replay_cmd_template': './check %s --replay {path}' % pid,
            'engine': 'vf',
            'level_claimed': {'category': cat, 'text': text, 'design_ref': ref},
            'level_note': note,
            'technique': tech,
        })
    man = {
        'version': 1,
        'setup_cmd': 'sh /verif/tools/setup.sh',
        'hooks': {
            'guard': 'SKEPTICOIN_VERIF',
            'enable': "no source hooks: the checks rebind module-level names of the imported working tree in their own "
                      "process (vf/seams.py); ./check exports SKEPTICOIN_VERIF=1 and PYTHONPATH=/repo",
            'baseline_off_cmd': "cd /repo && env -u SKEPTICOIN_VERIF /venv/bin/python -m pytest -ra -q -p no:cacheprovider "
                                "--timeout=900 --continue-on-collection-errors",
            'source_commits': [],
            'add_only': True,
        },
        'engines': [{
            'name': 'vf', 'path': '/verif/vf',
            'serves_properties': [c['property_id'] for c in checks],
            'kind_free_text': "hand-written explicit-state / bounded-exhaustive explorer over the real Python "
                              "implementation with co-executed reference models (vf/refmodel.py), fake transport and "
                              "virtual clock (vf/simnet.py), snapshotting file layer (vf/crashfs.py)",
        }],
        'checks': checks,
        'not_applicable': [{'property_id': p, 'reason': NOT_YET} for p in ALL if p not in CHECKS],
        'notes': "All checks run /venv/bin/python with PYTHONPATH=/repo, i.e. always the current working tree; nothing "
                 "is compiled. Known, recorded defects are listed in /verif/known_findings.json.",
    }
    with open(os.path.join(HERE, 'MANIFEST.json'), 'w') as f:
        json.dump(man, f, indent=1)
        f.write("\n")


if __name__ == '__main__':
    main()
