#!/usr/bin/env python3
"""Regenerates /verif/MANIFEST.json from the table below (one entry per claimed property)."""
import json
import os

HERE = os.path.dirname(os.path.dirname(os.path.abspath(__file__)))

MC = 'model_checking'
FE = 'fault_enumeration'
EX = 'exploration'

# id: (category, technique, level text, level note, design ref)
TREE = ("BFS over block-tree arrival histories of the real CoinState (every stored block as parent x payload menu), "
        "de-duplicated on (stored set, head); ")
CHECKS = {
    'C01': (MC, "explicit-state search over block-tree histories; every adversarial candidate block offered on every stored "
                "parent of every state; lock-step reference validator + deep state fingerprint",
            TREE + "in every state every stored block is offered ~55 candidate blocks each breaking exactly one spend rule (incl. two "
            "outputs of one funding transaction held by different keys, spent together under one owner's signatures) "
            "(plus valid controls), including candidates signed over whatever the implementation itself treats as the signed "
            "message. accept => reference-valid; any raise => deep fingerprint of the prior state unchanged; accepted controls "
            "must produce the reference unspent set. Exhaustive within depth 3 (quick) / 4 (thorough) on a harness-rooted "
            "easy-target chain and depth 1/2 on the real genesis. Every rule-breaking candidate is also delivered by a peer to a real "
            "node (start-up state / after its own miner found a block): chain state, pool and store unchanged by the rejection.",
            "Trusts the reference validator (vf/refmodel.py, bound to real data by C18), ecdsa, and the seams: scrypt stand-in, "
            "checkpoint horizon lowered, ecdsa verification memoised. Signature forgery is outside any enumeration.",
            "DESIGN.md section 4, C01"),
    'C02': (MC, "same explicit-state search; value / reward alphabet; conservation invariant on every stored block",
            TREE + "candidates: reward = bound, +1, -1, split, absent fees, wrap-around values, out-of-range and overspending "
            "outputs, every malformed shape of the reward transaction. accept => reference-valid; unspent total at every stored "
            "block <= parent's + subsidy and <= cumulative schedule, from the implementation's own unspent sets. A third universe has the "
            "subsidy halving interval rebound to 3 blocks so that explored chains cross two halvings. A three-step candidate sequence "
            "(high-fee block; a low-fee list on an ancestor lacking its input; the list with a reward claiming more than its own "
            "fees) exercises whatever the fee computation remembers between blocks.",
            "Reference subsidy formula is the check's own; halving heights are out of reach (composition with C16).",
            "DESIGN.md section 4, C02"),
    'C03': (MC, "explicit-state search over block trees x arrival orders, both add paths; reference replay-from-genesis in "
                "lock-step; order differential; snapshot fingerprints",
            TREE + "every kept history is driven through add_block and add_block_no_validation; at every stored block the "
            "unspent set and per-key balances (value and exact reference list) are compared with a replay of that block's own "
            "ancestors; a second arrival order of the same set must give the same per-block views; every intermediate snapshot "
            "is re-fingerprinted after later adds. Five build modes (the fifth: a wallet builds spends on the state between arrivals): validated / unvalidated entry point, without and with balance "
            "look-ups (at the head / at every block) between arrivals, so that on-demand caches are hot when the next block "
            "arrives; a second payload menu pays never-seen keys twice in one transaction / reward; a third has a zero-value reward "
            "output to a key that then spends all its positive outputs, and a transaction whose inputs alternate between owners.",
            "De-duplication on (stored set, head) assumes the state is a function of those; that is exactly what the per-block "
            "comparison and the order differential test for the kept representatives.", "DESIGN.md section 4, C03"),
    'C04': (MC, "exhaustive enumeration of all n! parent-choice sequences; reference fork choice in lock-step",
            "All sequences in which each new block picks any earlier block as parent (n = 8 quick, 10 thorough; no "
            "de-duplication), through add_block and add_block_no_validation; after every arrival head, tip set, by-height "
            "index of every stored block and forks() equal the reference (first-seen block of greatest height); the same on a "
            "universe whose competing branches carry different targets and time stamps far apart; one 130 (400)-block chain with a "
            "stale tip / branch left behind at height 1, 2 or 5; all 120 sequences of 5 blocks delivered by a peer to a real "
            "node, as relays and as answers to a request.",
            "Total work is height in this version; sibling ids fall on both sides of the incumbent's (counted in evidence) so a "
            "tie-break by id cannot hide.", "DESIGN.md section 4, C04"),
    'C05': (MC, "explicit-state search over trees crossing retarget boundaries; single-rule-broken header candidates on every "
                "stored parent; own-assembly acceptance; exhaustive retarget arithmetic grid",
            TREE + "retarget period rebound to 4 so boundaries fall on both sides of forks; ~40 header candidates per parent "
            "(PoW, wrong/stale/off-by-one targets, heights, reward height, time rules at the exact thresholds, every evidence "
            "field, evidence of other parent/nonce/tx list), each re-mined so only the intended rule is broken; the node's own "
            "construct_block_for_mining output must be accepted at 5 clock offsets in every state, and so must what the real "
            "MinerWatcher assembles (one and two miner ids, clock advancing between requests); every candidate is also relayed to a "
            "real node with the message header's time stamp forged to the block's own; 9,192-case grid of "
            "calculate_new_target with the real constants; 48 two-branch histories whose fork lies before a boundary and whose "
            "branches both reach the next one (state-dependent candidate: target derived from the head's chain); thorough adds "
            "a 10,080-block chain forked across the real boundary.",
            "Targets are enumerated at every power-of-two boundary, not all 2^256 values.", "DESIGN.md section 4, C05"),
    'C06': (FE, "exhaustive fault enumeration: every single-bit flip and every truncation of every block of a set, on an "
                "easy-target universe where proof-of-work luck cannot mask anything",
            "For 40 (quick) / several hundred (thorough) fully valid blocks with 1-4 transactions, reward data 0/1/200 bytes and "
            "heights on both sides of the VLQ width boundaries, every bit flip and every proper prefix of the encoding goes "
            "through Block.deserialize (right after the genuine bytes were decoded) and CoinState.add_block on the chain holding "
            "the block's parent, and every refused mutant is presented a second time; any acceptance is a violation. If the tree under test refuses the reference-assembled blocks, blocks from its own assembly are used.",
            "Single-bit and truncation faults only; the rejecting-rule histogram in the evidence is informational.",
            "DESIGN.md section 4, C06"),
    'C07': (EX, "exhaustive enumeration of decoder inputs: all short VLQ strings, every byte x position substitution of sample "
                "encodings, prefix insertion, trailing data; value-grid round trips; preemption-bounded exhaustive exploration of "
                "two-thread schedules of hash()/serialize() on the real classes",
            "Every byte string of length <= 2 (3 thorough) to the VLQ decoder; for ~30 (50) canonical encodings of all consensus "
            "types every position x every byte value, 1..8 redundant continuation bytes before every VLQ field, trailing data: "
            "whatever decodes must re-encode to the consumed bytes and carry id = sha256d(canonical encoding); 1,060 grid values "
            "of all consensus and wire types round-trip field by field; ids of objects read back from a BlockStore; list sizes up to "
            "16384; the signature / public-key field re-formed under every type byte x lead byte x every prefix / suffix of its "
            "bytes (393,214 mutants). Threads: 5 two-thread plans (id / encoding of a value built in memory, message bytes as send_message builds "
            "them) under every schedule with <= 1 (2) preemptions at source-line granularity of datatypes, serialization, "
            "signing and messages: every result equals the reference encoding / its double SHA-256 and decodes back.",
            "The space of byte strings is unbounded; what is complete is the stated mutation families.", "DESIGN.md section 4, C07"),
    'C08': (MC, "explicit-state search over write histories x every flush batching x restart after every flush, on the real "
                "BlockStore file and the real read_chain_from_disk; preemption-bounded exhaustive exploration of 2-3 writer "
                "threads on one store",
            "All block-tree write histories over the payload menu (forks including the same pending transaction, the same "
            "reward transaction, spends that differ between forks, multi-input/multi-output) up to 3 (quick) / 4 blocks beyond "
            "a 2-block prefix, under every composition of the writes into flush batches; after every flush a new BlockStore on "
            "the same file and read_chain_from_disk: same ids, byte-identical blocks, parent before child, rebuilt unspent set "
            "at every block and head height equal to the pre-restart ones; plus a 201-block chain carrying reward data of every "
            "length 0..200 under three batchings; batchings with <= 2 flushes also with the first batch handed over, discarded "
            "as after a rejected download, and handed over again; reward shapes without outputs / with a zero-value output / with two "
            "outputs; a 1,300-block chain with a stale sibling at every height (2,601 rows). Threads: 4 plans of 2-3 threads doing save_block / flush_blocks through the "
            "real DiskInterface on one file store, every schedule with <= 2 (3) preemptions (3-thread plan one less) at "
            "source-line granularity of blockstore.py: every block whose saving thread's flush returned is read back "
            "byte-identical from the re-opened store, no exception, no deadlock. One recorded defect (shared transaction across "
            "stored blocks) is reported as KNOWN-FINDING; anything else is a VIOLATION.",
            "Clean restart only (no SQLite crash consistency); blocks are assembled without the nonce search because the store "
            "never looks at proof of work.", "DESIGN.md section 4, C08"),
    'C09': (MC, "explicit-state search over delivery sequences to one real node with the real store; state = history replayed on "
                "fresh objects; reference validator + store/buffer/pool/relay observation in lock-step; preemption-bounded "
                "exhaustive exploration of the networking thread against the miner thread",
            "One real LocalPeer/ChainManager/ConnectedRemotePeer over fake sockets with the real DiskInterface and a file "
            "BlockStore, a greeted deliverer and observer, a pending transaction in the pool. BFS to depth 3 (4) over ~43 event "
            "kinds instantiated at each state: valid blocks on the head and on side forks (overtaking or not), duplicates, an "
            "orphan, 33 blocks each broken in one way the validator distinguishes (by-itself, in-state, and the two kinds of "
            "apply errors). After each delivery: entered state only if reference-valid with stored parent; accepted => committed "
            "to the store (read through a second connection) and relayed exactly once iff new head; otherwise chain state, "
            "store rows, write buffer and pool unchanged and nothing relayed; each sequence is closed by a fresh valid block "
            "that must get stored. The deliverer greets with a header time stamp one hour ahead. Start states with 1-2 bulk-download "
            "blocks pending, then a rejected relay (5 kinds), then two valid relays that must get stored; a 'ten minutes pass' event and, "
            "after every sequence, a closing rejected delivery ten minutes later that must leave no trace (every module's wall "
            "clock is the virtual one). Threads: the networking "
            "thread (iterations of LocalPeer.run's loop body over the fake selector) handles a valid sibling block / a block "
            "failing full validation / a transaction while the miner thread runs the real found-block handler, every schedule "
            "with <= 1 (2) preemptions at source-line granularity of mining, manager, blockstore, disk_interface, local_peer "
            "and remote_peer (framing loop atomic): a rejected block is in neither state nor store, an accepted one is stored "
            "and relayed at most once, the write buffer ends empty, nothing escapes the event loop.",
            "Bulk-download deliveries (in_response_to != 0) are excluded by the property's wording.", "DESIGN.md section 4, C09"),
    'C10': (MC, "stateless exploration of 2-3 real nodes under a scheduler that owns deliveries, accepts, timer steps, clock and "
                "the fetch-peer choice: exhaustive DFS with canonical-state de-duplication (small 2-node configurations) and "
                "iterative deviation bounding from a round-robin default (all configurations), each execution completed fairly",
            "37 (40) configurations: chain pairs equal / ahead by 1, 3, 7 (up to 3 inventory batches, batch seam 3) / one at "
            "genesis / forks at depth 2, 12, 17 (16, 25) with longer or equal branches, who dials whom, both dialling; 3-node "
            "line, star and triangle with the longest chain at each position; 3-node lines with a fork deeper than the locator's "
            "dense range, a late joiner with a longer chain (second phase after the first quiescence), a non-listening node "
            "(single connection between neighbours). Quick: all schedules with <= 1 deviation (one "
            "configuration: 2) in the first 40 steps + exhaustive DFS (<= 2 ticks per node, no clock advance) of the 12 small "
            "configurations; thorough: <= 2 (selected 3) deviations and DFS with a clock advance. Every execution is completed "
            "fairly (advance 61 s, tick every node with the fetch-peer choice rotated, deliver everything; until ledgers are "
            "unchanged for 3 rounds; 60-round horizon; > 3000 deliveries without a timer step = livelock) and then continued with "
            "an injected fresh block and a broadcast transaction. Oracle: every head at the greatest initial height (+1 after the "
            "block), complete chains, transaction in every pool, no exception escaped, no connection between nodes dropped, "
            "every node relays each block / transaction at most once; on the default schedule of every configuration the transaction is "
            "then confirmed, a longer branch without it takes over and another spend of the same output must reach every pool. Threads: a transaction broadcast from the main thread (as skepticoin-send does) while the networking thread handles a block / transaction delivery, every schedule with <= 1 (2) preemptions at source-line granularity: every peer receives it exactly once and the call does not raise.",
            "Liveness is decided as 'the fair completion reaches a fixed point within the horizon'. Reliable links; frame "
            "granularity (C11 covers fragmentation).", "DESIGN.md section 4, C10"),
    'C11': (MC, "exhaustive enumeration of all 2-way and 3-way cuts of framed and corrupted streams against a reference framer",
            "116 (quick) / ~300 streams of 1-3 real messages and 30 corruption variants (each magic byte, over-limit and "
            "boundary lengths, over-limit lengths made of the magic's own bytes, short/long lengths, undecodable payloads, truncation); for each: whole, bytewise, every 2-way cut "
            "(also with an empty read) and every 3-way cut, through MessageReceiver.receive and through "
            "ConnectedRemotePeer.handle_receive_data; the dispatched sequence and the read that raises the refusal must equal "
            "the reference framer's under every cut. Frames of 5 KB / 71 KB (thorough 1.1 MB) alone, first and last in a stream under "
            "1024 / 4096 / 65536-byte reads and every single cut next to a frame boundary, a power of two or the end; two multi-read "
            "frames back to back under every alignment of 1024-byte reads; bursts of 16 / 17 / 40 / 300 minimum-size frames.",
            "Payload validity inside a frame is decided by the real message decoders (fragmentation independence, not the "
            "decoders, is under test here).", "DESIGN.md section 4, C11"),
    'C12': (MC, "exhaustive enumeration of ledger states x pool subsets x clock offsets x intervening event, driving the real "
                "MinerWatcher handlers in the role of the miner process; preemption-bounded exhaustive exploration of the "
                "found-block handler (miner thread) against the networking thread",
            "For every ledger state of a block-tree search (depth 2 / 3, forks, head on either branch), every compatible pool "
            "subset of size <= 3 (fees 0, 3, 1000, 10^8; 1- and 2-input), clock - head time in {-30,-29,-1,0,1,120} and "
            "{nothing, the clock advances by 7 s, the socket to the first peer is dead, a bulk-download block containing the pending transactions arrives, competing block with a time inside (clock, clock+30] arrives, pool gains a "
            "transaction} injected after "
            "work request 0 or 1 or after result 0 (root target 2^255, so runs contain losing nonces; retarget period seam 4, so "
            "candidates at heights 4 and 8 are retarget-boundary blocks; the miner process works on a copy of the request made at "
            "request time, as the real queue delivers it): the found block "
            "passes the node's add_block on the state served at request time and the reference validator, pays exactly subsidy "
            "+ fees to the handed-out key, is later than its parent; afterwards the served chain state contains it (as head if "
            "it extends the served head), the store has it, every greeted peer got it exactly once. The clock = head-30 corner "
            "is a recorded KNOWN-FINDING. Threads: the real found-block handler for a winning nonce in one thread, the networking "
            "thread handling a valid sibling block / an invalid block / a transaction in the other, every schedule with <= 1 "
            "(2) preemptions at source-line granularity: afterwards the found block is in the served chain state, in the "
            "store, reached every peer exactly once and the handler did not raise.",
            "The miner process is played by the harness (scrypt stand-in). Thread schedules: source-line granularity, <= 2 "
            "preemptions, 2 threads.", "DESIGN.md section 4, C12"),
    'C13': (MC, "explicit-state search over interleavings of submissions and head changes on one real node; reference pool and "
                "ledger in lock-step; preemption-bounded exhaustive exploration of admission / head change / observer threads "
                "on the real ChainManager",
            "BFS to depth 4 (6), de-duplicated on (stored blocks, head, ordered pool): submissions (valid, conflicting, "
            "overlapping 2-input, already mined, other-fork output, 11 malformed kinds (boundary amounts at every output position), bad signature, overspend, resubmission) "
            "through the network handler and through add_transaction_to_pool; head changes (extension including / conflicting "
            "with / ignoring pooled transactions, side forks, reorganisations) through relayed blocks, through blocks answering a "
            "request (bulk path), through set_coinstate and through a rejected relay (fall-back to the last validated state). "
            "After every operation: every pooled transaction reference-valid at the head, pairwise disjoint references, "
            "nothing inadmissible admitted, after a head change exactly the still-valid ones remain. Threads: 6 plans of 2-3 "
            "threads (add_transaction_to_pool, a head change that spends / ignores the inputs, a get_state observer) under every "
            "schedule with <= 2 (3) preemptions at source-line granularity of manager.py, and the pool after the miner thread "
            "and the networking thread raced: the pool at the end and every observed snapshot is valid at its head and "
            "conflict-free, still-valid transactions are not dropped.",
            "Fork choice itself is C04's subject: if the implementation's head differs from the reference the pool oracle is "
            "suspended for that step.", "DESIGN.md section 4, C13"),
    'C14': (MC, "explicit-state search per ledger world over wallet states with the full (amount, fee) alphabet at every state; "
                "reference arithmetic + node validators + reference validator",
            "Worlds: every assignment of <= 3 (4) unspent outputs of value 1/2/5 to two wallet keys, with/without a foreign "
            "output and a 10-coin reward, both output orders and both key-dictionary orders, as real validated chains. Per world "
            "a BFS over (head, record of used outputs, outputs used by successful spends), offering every amount 1..total+1 x "
            "fee 0..2 at every state, with and without confirming the returned transaction in a block: a returned transaction "
            "must pass the node's and the reference validation, pay exactly, give exactly the change, use only unused wallet "
            "outputs; a failure must leave the record unchanged and happen only when unused outputs do not suffice. 24 (40) worlds are "
            "explored to 5 (6) operations with a reduced amount alphabet, confirmation of ANY pending spend as its own operation and "
            "one reorganisation onto a branch without the confirmed spends, one wallet object carried along each path, wallets whose keys carry the annotation 'change', confirmations "
            "whose reward refunds the spending keys; wallets holding 1,100 (2,100) outputs, 13 attempts each "
            "(few, 255/256, all but one, all).",
            "Greedy selection order is whatever the wallet does; only the stated outcome is checked.", "DESIGN.md section 4, C14"),
    'C15': (MC, "explicit-state search over wallet operation sequences with a reference wallet in lock-step; crash-point "
                "enumeration of every save (snapshot at every raw write / close / rename)",
            "BFS to depth 7 (9) over hand-out (three annotations), restore, restore-oldest, save, load, dump+load, key generation on a "
            "3-key wallet, "
            "de-duplicated on (wallet content, file text, last key): a key is never handed out twice while unused keys remain "
            "(also across save/load), load reproduces what was saved, dump+load is the identity; get_balance equals the reference "
            "total in every reachable unused/annotated partition on three ledger states; for every save executed, and for a "
            "100 (400)-key wallet crossing the 8 KiB write buffer, every on-disk view at every operation boundary is loaded "
            "with the real loader and must be the complete old or the complete new wallet; the skepticoin-receive command is "
            "killed at every file-operation and output boundary and invoked again on what it left: an address already shown "
            "is never shown again while unused keys remain; after every crash snapshot the process restarts on those files, loads and "
            "saves again: the file then holds that wallet.",
            "Process-crash model (kernel view at syscall boundaries); no power-loss reordering.", "DESIGN.md section 4, C15"),
    'C17': (EX, "exhaustive enumeration of all lists over a small alphabet and all single edits / proof positions per length",
            "All lists over 3 (4) ids up to length 8 (9), and over {all-zero id, all-ones id, ordinary id} up to length 8: commitments pairwise distinct (covers every substitution, reordering, "
            "removal, append, duplication incl. duplicate-last); for every length up to 33 (130) every single edit changes the "
            "commitment and the proof at every position reproduces it and contains the entry; the same edits on real blocks' "
            "transaction lists with the header kept are refused; every ordered pair of lists over 4 ids up to length 4 (5): "
            "after committing to the first, the tree and every proof of the second are right (no dependence on earlier calls); 4 "
            "two-thread plans (roots / trees+proofs of different lists) under every schedule with <= 1 (2) preemptions at "
            "source-line granularity of merkletree.py.",
            "Leaves are independent hashes; a leaf equal to an inner node needs a preimage.", "DESIGN.md section 4, C17"),
    'C18': (EX, "exhaustive enumeration of all 327 checkpoints x id variants x both entry points; recorded blocks re-validated "
                "with real scrypt",
            "Every checkpoint height with wrong id / right id / neighbouring checkpoint's id through validate_block_in_coinstate "
            "and CoinState.add_block, on a node with genesis only, with its head far above all checkpoints, and with its head at "
            "1234; horizon-1/0/+1; table pinned by digest; genesis + 5 recorded blocks keep id and bytes and "
            "pass full validation with the real scrypt (horizon lowered), also when a competing block at height 1 arrived first "
            "and right after refused look-alikes (altered evidence; re-mined copies claiming a wrong height whose evidence "
            "reconstruction fails half-way), and when the recorded chain is loaded again into fresh objects after the earlier ones "
            "were dropped (when the recorded blocks are decoded from streams carrying more bytes after each block, and after a restart from a store "
            "that also holds a competing block), with id() replaced by a harness-owned one that hands dead objects' ids to new objects adversarially; "
            "the check's reference validator agrees on the recorded blocks.",
            "Only six recorded real blocks exist offline.", "DESIGN.md section 4, C18"),
    'C16': (EX, "exhaustive enumeration of the whole input domain (every height) against a closed-form reference",
            "Complete enumeration: get_block_subsidy is evaluated at every one of the 33.6 million heights up to one "
            "full era past exhaustion and at every era boundary up to 2^32-1 and beyond, compared with the closed-form "
            "schedule, checked for monotonicity, summed (= documented maximum) and compared with docs/params.md; the same heights "
            "in descending order, every ordered pair of 106 representative heights and every ordered triple of era starts "
            "(the answer must not depend on earlier calls); the validator's reward bound at the real era boundaries (single- and multi-output rewards, amounts >= 2^63 through the "
            "wire decoder; blocks reporting an earlier era's height at era starts); 11,117 "
            "output lists over a boundary alphabet offered to the stand-alone transaction validator (accepted iff every output "
            "and the total are in (0, maximum]). "
            "Nothing is sampled, so the verdict is a statement about all inputs.",
            "Trusts the closed-form schedule written in the check (10^9 >> (h // 1,050,000)) and the regexes that read "
            "docs/params.md.", "DESIGN.md section 4, C16"),
    'C19': (MC, "explicit-state search over network-manager event sequences on one real node with a back-off monitor in "
                "lock-step; exhaustive back-off table; crash-point enumeration of every peer-file rewrite",
            "BFS to depth 5 (6) from six initial peer books (empty, one, two hosts, two ports, and two non-initial ones with 2 / 3 "
            "prior failures) and to depth 3 (4) from three states reached by an event prefix (two greeted connections; a given-up "
            "address in the book next to a greeted peer) over ticks (+0,9,10,11,20,40,1800 s), dials established / refused, incoming connections (also "
            "duplicate keys), greetings (claimed port, own / other nonce, repeated), peers messages (incl. IPv6-only), remote "
            "close, garbage, OS error, <= 3 open connections, give-up seam 3: no key in both maps, nothing escapes the loop, "
            "every dial (also one that fails on the spot) satisfies the back-off monitor and the give-up bound, self-connections are dropped, recorded and never "
            "redialled; is_time_to_connect equals the formula for every k in 0..2882 with the real constants; peers.json after "
            "every greeting (incl. a 130-peer run during which the wall clock steps back twice) is newest-first, <= 100, duplicate-free, and every crash snapshot of every "
            "rewrite is the complete old or new list.",
            "Real sockets / selector replaced by fakes that reproduce register/modify/unregister and recv/send/close errors.",
            "DESIGN.md section 4, C19"),
    'C20': (FE, "exhaustive fault enumeration over mutation families of a full protocol transcript, three fragmentations, victim "
                "connection present, on one real node with the real store",
            "A real node (file BlockStore, pending transaction, a validated side-branch block in its history) with an honest greeted connection holding a half-received frame "
            "and an attacker connection before greeting / after greeting (same host) / while the node awaits its inventory. "
            "Mutants of a transcript containing one valid instance of every message type: every byte position x {00,01,7f,80,ff,"
            "b^01,b^80} (quick: 4 values), every truncation + close, truncation at field boundaries + next message, deletion / "
            "duplication / isolation / transposition of messages, field-boundary splices, every message and data type value "
            "0000..00ff, boundary length fields, huge / non-canonical list counts, magic bytes, crafted rule-breaking blocks and "
            "transactions (the C01/C02/C05 alphabets, a block stating a height far beyond its chain), seeded random supplement. inventory items of every data type naming the block that follows. Oracle: "
            "nothing escapes the event handling and every handler returns (20 s watchdog); the victim's peer object, socket, registration, flags and receive buffer are "
            "untouched and its pending frame still completes; chain state / pool / store change only by the transcript's "
            "reference-valid block / transaction.",
            "Sizes stay small (no resource exhaustion); byte strings outside the enumerated families are not covered.",
            "DESIGN.md section 4, C20"),
}

# additions of the eleventh wave of seeded defects (appended to the coverage text of each check)
EXTRA = {
    'C01': "The candidates are also delivered to a real node as answers to a request (bulk-download path) with the validation interval set to the block's height.",
    'C02': "Value conservation (unspent total after <= before + subsidy) is evaluated for every accepted block, including one whose two non-adjacent transactions spend the same output while the reward claims both fees.",
    'C03': "40-block two-branch histories; a look-up mode in which a wallet asks balances for side-branch blocks between arrivals.",
    'C04': "A delivery mode in which every block is followed by a refused one (the node falls back to its last validated state).",
    'C05': "The real miner handler at clock offsets -30 / -29 relative to the head: a found block that breaks a header rule must not be adopted.",
    'C06': "The mutants are also presented on the shorter branch of a two-branch state.",
    'C07': "Ids of objects derived from an already-hashed object (signed copy, rebuilt block).",
    'C09': "A coarse-grained thread exploration (line-level points in mining/disk/store code, call-level in the managers) with preemption bound 2 (3).",
    'C10': "A history containing a block of exactly the maximum size (bound 0 quick / 1 thorough).",
    'C11': "Complete frames followed by the remote's close inside one readable event, on the real LocalPeer read path.",
    'C12': "A sixth thread plan: a work request racing a block that confirms a pooled transaction; the coarse-grained exploration of C09.",
    'C13': "One output spent by two transactions that differ only in a second valid signature; the coarse-grained thread exploration of C09.",
    'C14': "Wallets of 2,100 outputs asked for amounts that need exactly 1,978 / 1,979 inputs with and without change (the size limit); a refusal is accepted only when no transaction that fits in a block reaches the amount. Wallets whose ledger order needs more inputs than fit while a largest-first selection fits (with and without change).",
    'C15': "The balance of a wallet object that has built a not yet confirmed spend.",
    'C16': "The validator's reward bound on ledger states in which conflicting transactions with different fees were seen by the same process.",
    'C17': "List lengths around every power of two up to 4,100.",
    'C18': "Hand-assembled network-format blocks at all 327 checkpoint heights and at every VLQ width boundary keep their network id and their bytes.",
    'C19': "The peer book read from peers.json by the real DiskInterface.load_peers.",
    'C20': "A client that resets its connection before the node accepts it.",
}

# additions of the twelfth wave
EXTRA12 = {
    'C01': "Every candidate is offered once more at the head of every state with the checkpoint horizon at the parent's height (a scaled stand-in for the shipped 163,000), including candidates that state their parent's height: full validation is due just above a horizon whatever height a block states.",
    'C02': "The horizon pass of C01; a transaction paying one key twice with the reward claiming the value of either output.",
    'C03': "A fourth payload menu: two outputs of one transaction / one reward with the same amount and key, the later one spent.",
    'C04': "The node's own miner as a source of blocks: for every 4-block (5-block) sequence relayed to a real node and every i <= j, work is requested after arrival i and the block found after arrival j.",
    'C05': "The horizon pass of C01 (a block stating its parent's height must be refused).",
    'C06': "One block with 64 transactions (two-octet transaction count): quick takes header, count, first two and last transaction; thorough every bit.",
    'C07': "Store read-back of competing blocks carrying the same transaction (one flush / one flush per block): every id is the hash of the encoding and was written.",
    'C08': "A block with a 1,201-output transaction under six batchings.",
    'C09': "A second observer that repeats its greeting must still get each relay once.",
    'C10': "Three-node lines whose end does not listen and dials the hub, longest chain at each position.",
    'C11': "Every stream behind a genuine greeting handled by the real handler, the first read ending inside / at / behind the greeting frame.",
    'C13': "Three 88 kB pending transactions (more than a block), a miner work request, a confirming block, another work request: the pool holds exactly the still valid ones.",
    'C14': "A wallet whose three largest outputs are owned K0, K1, K0 and the signer called on alternating owners.",
    'C16': "The reward bound on a real node with fee-paying transactions pending: an empty block may claim the subsidy and not a unit more.",
    'C17': "On a real node whose checkpoint table names the genuine block: the genuine header with every edit of the transaction list, as relay and as answer, is refused and the genuine block adopted afterwards.",
    'C18': "select_block_slice against a cyclic read at every offset of every recorded block; select_block_height on a boundary grid.",
    'C20': "An honest connection the node opened itself stays untouched when a peer on the same host announces other hosts with the same port.",
}

# additions of the thirteenth wave
EXTRA13 = {
    'C02': "An overspending transaction that is NOT the first ordinary transaction of its block, with fees paid ahead of it covering the excess (reward at the subsidy / at subsidy + net fees).",
    'C06': "Every flip of the header region (and the start of the transaction list) of every block is offered again with the checkpoint horizon at the block's parent's height: the first block above a horizon is validated in full.",
    'C12': "Three peers, two of them at one address (two nodes behind one address are two peers): each receives the found block exactly once.",
    'C16': "The amount lists are also offered inside blocks (second / third transaction, built in memory and decoded from the wire) to the stand-alone block validator.",
    'C19': "An event 'redial': an address whose outgoing connection is still open is dialled again from outside the manager's retry loop (duplicate OUTGOING key).",
    'C20': "Replayed greetings (the victim's, the other honest peers', the node's own nonce) alone / after the attacker's own / twice; every rule-breaking block also dressed up as the answer to a request the node never made; blocks stating a wrong height delivered as REQUESTED answers (inventory, request, block) - the bulk-download path; manager steps at the next full minute and after every outstanding request has timed out.",
}

# additions of the fourteenth wave
EXTRA14 = {
    'C03': "Thread schedules (preemption bound 2 / 3): two threads asking one chain state for the balances at different blocks (deep vs shallow, side branch, the same block); every answer and every later answer equals the replay of that block's chain.",
    'C06': "Every mutant is also offered to a chain state that already holds the genuine block.",
    'C12': "A pending pool that fits in one block only just (block within one output's size of the 200,000-byte limit).",
    'C13': "A submission spending an output locked to 64 bytes that are not a curve point (the signature check fails in the key parser, not with a validation error).",
    'C15': "The receive command started, and killed at every boundary, in a directory that has no wallet yet (the first save: no file or a complete one).",
    'C20': "A phase in which the node's own greeting has gone out and the peer never greets; oracle: nothing sent by a connection that never greeted takes effect.",
}

# additions of the fifteenth wave
EXTRA15 = {
    'C01': "Two outputs of one key spent in one transaction with a bad signature (another key's, garbage, a copy of the first) on the later input.",
    'C06': "Blocks on both sides of and at retarget boundaries under the period seam (the block that starts a period is checked like any other).",
    'C08': "A chain whose time stamps do not increase (children older than their parents, equal stamps, a fork): parents still come back first.",
    'C12': "After a head change that keeps a transaction pending, another spend of the same output is submitted before the next work request.",
    'C15': "Saves interrupted by an exception (KeyboardInterrupt, ENOSPC) raised at every write boundary in turn: whatever the unwinding runs, the file is the previous or the new wallet.",
    'C18': "Thread schedules (bound 1 / 2): a recorded block re-validated in full with the real scrypt, and the recorded ids recomputed from the fields, while another thread encodes recorded blocks.",
    'C20': "An unappliable block whose parent is not yet known, followed by an honest peer delivering that parent (the honest peer stays connected); a list count replaced by 3,000,000 VLQ continuation octets (watchdog).",
}

NOT_YET = "check not built yet in this revision of /verif (work in progress; see DESIGN.md section 4)"

ALL = ['C%02d' % i for i in range(1, 21)]


def main():
    checks = []
    for pid in ALL:
        if pid not in CHECKS:
            continue
        cat, tech, text, note, ref = CHECKS[pid]
        if pid in EXTRA:
            text = text.rstrip() + ' ' + EXTRA[pid]
        if pid in EXTRA12:
            text = text.rstrip() + ' ' + EXTRA12[pid]
        if pid in EXTRA13:
            text = text.rstrip() + ' ' + EXTRA13[pid]
        if pid in EXTRA14:
            text = text.rstrip() + ' ' + EXTRA14[pid]
        if pid in EXTRA15:
            text = text.rstrip() + ' ' + EXTRA15[pid]
        checks.append({
            'property_id': pid,
            'quick_cmd': './check %s --tier quick' % pid,
            'thorough_cmd': './check %s --tier thorough' % pid,
            'evidence_file': '/verif/evidence/%s.json' % pid,
            'replay_cmd_template': './check %s --replay {path}' % pid,
            'engine': 'vf',
            'level_claimed': {'category': cat, 'text': text, 'design_ref': ref},
            'level_note': note,
            'technique': tech,
        })
    man = {
        'version': 1,
        'setup_cmd': 'sh /verif/tools/setup.sh',
        'hooks': {
            'guard': 'SKEPTICOIN_VERIF',
            'enable': "no source hooks: the checks rebind module-level names of the imported working tree in their own "
                      "process (vf/seams.py); ./check exports SKEPTICOIN_VERIF=1 and PYTHONPATH=/repo",
            'baseline_off_cmd': "cd /repo && env -u SKEPTICOIN_VERIF /venv/bin/python -m pytest -ra -q -p no:cacheprovider "
                                "--timeout=900 --continue-on-collection-errors",
            'source_commits': [],
            'add_only': True,
        },
        'engines': [{
            'name': 'vf', 'path': '/verif/vf',
            'serves_properties': [c['property_id'] for c in checks],
            'kind_free_text': "hand-written explicit-state / bounded-exhaustive explorer over the real Python "
                              "implementation with co-executed reference models (vf/refmodel.py), fake transport and "
                              "virtual clock (vf/simnet.py), snapshotting file layer (vf/crashfs.py)",
        }],
        'checks': checks,
        'not_applicable': [{'property_id': p, 'reason': NOT_YET} for p in ALL if p not in CHECKS],
        'notes': "All checks run /venv/bin/python with PYTHONPATH=/repo, i.e. always the current working tree; nothing "
                 "is compiled. Known, recorded defects are listed in /verif/known_findings.json.",
    }
    with open(os.path.join(HERE, 'MANIFEST.json'), 'w') as f:
        json.dump(man, f, indent=1)
        f.write("\n")


if __name__ == '__main__':
    main()
