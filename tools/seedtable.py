#!/usr/bin/env python3
"""Regenerates the 'Later rounds' seeded-defects table in DESIGN.md (between 'Later rounds (' and 'What the later rounds added')."""
import json, glob, os
first = {'C01-signature-cache','C02-reward-bound-uses-parent-era','C03-balance-carry-forward','C04-tip-extension-index-length','C05-period-start-from-head-chain','C06-evidence-equality-only-block-hash','C07-vlq-check-weakened','C08-unique-index-on-spent-reference','C09-narrowed-except','C10-getblocks-fallback-start-height','C11-stale-word-available','C12-stale-coinstate-for-block-time','C13-skip-cleanup-on-coinbase-only-head','C14-exact-spend-not-recorded','C15-rename-before-close','C16-memoised-halving','C17-equal-pair-promoted','C18-evidence-sampled-from-head-chain','C19-announcement-overwrites-waiting-peer','C20-narrowed-except-in-state-validation'}
rows = []
for d in sorted(glob.glob('/verif/seeded/*')):
    name = os.path.basename(d)
    if name in first:
        continue
    m = json.load(open(d + '/meta.json'))
    rows.append("| %s | %s | %s | %s |" % (name, m['property'], m['needs_to_manifest'].replace('|', '/'), m['detected_by'].replace('|', '/') + (' (obsolete since fix %s: the property holds with the change applied)' % m['obsolete_since'] if 'obsolete_since' in m else '')))
head = ("Later rounds (each agent was told the mechanisms already used for its property and asked for a different one;\n"
        "%d more seeds; those whose \"detected by\" says \"after ...\" were missed at first and led to the strengthening named there):\n\n"
        "| seed | property | mechanism and what it needs to manifest | detected by |\n|---|---|---|---|\n" % len(rows))
s = open('/verif/DESIGN.md').read()
a = s.index("Later rounds (")
b = s.index("What the later rounds added")
s = s[:a] + head + "\n".join(rows) + "\n\n" + s[b:]
import re
s = re.sub(r"All \d+ seeds are detected by the quick tier", "All %d seeds are detected by the quick tier" % (len(rows) + 20), s)
open('/verif/DESIGN.md', 'w').write(s)
print(len(rows) + 20, "seeds")
