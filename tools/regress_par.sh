#!/bin/sh
# tools/regress_par.sh [P] [pattern]: like regress_seeds.sh, but P seeds at a time, each in its own scratch worktree /tmp/wtr<k>
P=${1:-4}; PAT=${2:-*}
one() {
  d=$1; k=$2; WT=/tmp/wtr$k
  n=$(basename $d)
  [ -d $WT ] || git -C /repo worktree add -q --detach $WT
  git -C $WT checkout -q -- . ; git -C $WT checkout -q --detach $(git -C /repo rev-parse HEAD)
  p=$(/venv/bin/python -c "import json;print(json.load(open('$d/meta.json'))['property'])")
  if grep -q obsolete_since $d/meta.json; then echo "$n OBSOLETE"; return; fi
  git -C $WT apply $d/patch.diff 2>/dev/null || { echo "$n NOAPPLY"; return; }
  t0=$(date +%s)
  out=$(cd /verif && VERIF_REPO=$WT VERIF_CPUS=8 timeout 3000 ./check $p --tier quick --no-evidence 2>/dev/null); rc=$?
  echo "$n $p rc=$rc $(( $(date +%s) - t0 ))s $(echo "$out" | grep -c '^VIOLATION') violations"
  git -C $WT checkout -q -- .
}
k=0
for d in /verif/seeded/$PAT/; do
  k=$(( (k % P) + 1 ))
  echo "$d $k"
done > /tmp/regress.list
for k in $(seq 1 $P); do
  ( grep " $k\$" /tmp/regress.list | while read d kk; do one $d $kk; done ) &
done
wait
for k in $(seq 1 $P); do git -C /repo worktree remove --force /tmp/wtr$k 2>/dev/null; done
