#!/bin/sh
# tools/runall.sh [tier] : run every registered check, print one line each
tier=${1:-quick}
cd /verif
for c in $(python3 -c "import json; print(' '.join(x['property_id'] for x in json.load(open('MANIFEST.json'))['checks']))"); do
  s=$(date +%s)
  out=$(./check $c --tier $tier 2>/tmp/runall.$c.err); rc=$?
  e=$(date +%s)
  echo "$c rc=$rc $((e-s))s $(echo "$out" | grep -c '^VIOLATION') violations $(echo "$out" | grep -c '^KNOWN-FINDING') known"
done
