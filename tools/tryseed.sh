#!/bin/sh
# tools/tryseed.sh <patchdir> "<checks>"  : apply <patchdir>/patch.diff to the scratch worktree /tmp/wt0 (at /repo HEAD),
# run the repository's tests, the demo with and without the change, and the given checks against the changed tree.
D=$1; CHECKS=$2
WT=${WT:-/tmp/wt0}
[ -d $WT ] || git -C /repo worktree add -q --detach $WT
git -C $WT checkout -q -- . ; git -C $WT checkout -q --detach $(git -C /repo rev-parse HEAD)
S=$(mktemp -d /tmp/seedrun.XXXX)
echo "== demo WITHOUT the change"; (cd $S && PYTHONPATH=$WT timeout 600 /venv/bin/python $D/demo.py >/dev/null 2>$S/err0; echo "   exit $?")
git -C $WT apply $D/patch.diff || { echo "PATCH DOES NOT APPLY"; exit 3; }
git -C $WT diff --stat | tail -1
echo "== repository tests WITH the change"; (cd $WT && timeout 900 /venv/bin/python -m pytest -q -x -p no:cacheprovider 2>&1 | tail -1)
echo "== demo WITH the change"; (cd $S && PYTHONPATH=$WT timeout 600 /venv/bin/python $D/demo.py >/dev/null 2>$S/err1; echo "   exit $?"; tail -2 $S/err1 | cut -c1-200)
for c in $CHECKS; do
  tier=quick; case $c in *:*) tier=${c#*:}; c=${c%:*};; esac
  out=$(cd /verif && VERIF_REPO=$WT timeout 3000 ./check $c --tier $tier --no-evidence 2>$S/chk.err); rc=$?
  echo "== check $c ($tier) rc=$rc"; echo "$out" | grep -E "^(VIOLATION|KNOWN|  key)" | head -6 | cut -c1-330
  [ $rc -eq 2 ] && tail -5 $S/chk.err | cut -c1-300
done
git -C $WT checkout -q -- . ; rm -rf $S
