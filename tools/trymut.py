#!/usr/bin/env python3
"""dev tool: tools/trymut.py "C01 C02" file 'old' 'new' [--tests]   (applies a textual mutation to the scratch worktree
/tmp/wt0, runs the given checks against it with --no-evidence, reverts)"""
import subprocess, sys, os
WT = '/tmp/wt0'
checks, path, old, new = sys.argv[1:5]
tests = '--tests' in sys.argv
if not os.path.isdir(WT):
    subprocess.check_call(['git', '-C', '/repo', 'worktree', 'add', '-q', '--detach', WT])
subprocess.check_call(['git', '-C', WT, 'checkout', '-q', '--', '.'])
head = subprocess.check_output(['git', '-C', '/repo', 'rev-parse', 'HEAD'], text=True).strip()
subprocess.check_call(['git', '-C', WT, 'checkout', '-q', '--detach', head])
p = os.path.join(WT, path)
s = open(p).read()
if s.count(old) != 1:
    print("pattern occurs %d times" % s.count(old)); sys.exit(3)
open(p, 'w').write(s.replace(old, new))
try:
    if tests:
        r = subprocess.run('cd %s && /venv/bin/python -m pytest -q -x -p no:cacheprovider 2>&1 | tail -2' % WT, shell=True, capture_output=True, text=True)
        print("TESTS:", r.stdout.strip().splitlines()[-1])
    for c in checks.split():
        tier = 'quick'
        if ':' in c:
            c, tier = c.split(':')
        r = subprocess.run(['./check', c, '--tier', tier, '--no-evidence'], cwd='/verif', env=dict(os.environ, VERIF_REPO=WT), capture_output=True, text=True)
        lines = [l for l in r.stdout.splitlines() if l.startswith(('VIOLATION', 'KNOWN', '  key'))]
        print("== %s rc=%d" % (c, r.returncode))
        for l in lines[:8]:
            print("   ", l[:300])
        if r.returncode == 2:
            print(r.stderr[-1500:])
finally:
    subprocess.check_call(['git', '-C', WT, 'checkout', '-q', '--', '.'])
