#!/usr/bin/env python3
"""python3-vt tools/validate.py : validates MANIFEST.json and every evidence file against the schemas"""
import json, sys, glob, jsonschema
ok = True
m = json.load(open('/verif/MANIFEST.json'))
jsonschema.validate(m, json.load(open('/root/.vp/MANIFEST.schema.json')))
es = json.load(open('/root/.vp/EVIDENCE.schema.json'))
for c in m['checks']:
    p = c['evidence_file']
    try:
        jsonschema.validate(json.load(open(p)), es)
        print('ok', p)
    except Exception as e:
        ok = False
        print('BAD', p, str(e)[:300])
ids = {c['property_id'] for c in m['checks']} | {n['property_id'] for n in m.get('not_applicable', [])}
missing = {'C%02d' % i for i in range(1, 21)} - ids
if missing:
    ok = False
    print('properties neither claimed nor not_applicable:', missing)
sys.exit(0 if ok else 1)
