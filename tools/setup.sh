#!/bin/sh
# Offline setup: nothing is compiled; verify that the working tree and its dependencies import.
set -e
cd "$(mktemp -d /tmp/vfsetup.XXXXXX)"
PYTHONPATH=/repo:/verif /venv/bin/python -c "
import skepticoin.consensus, skepticoin.coinstate, skepticoin.blockstore, immutables, ecdsa, scrypt
import vf.run, vf.world, vf.refmodel
print('vf setup ok')
"
rm -rf "$PWD"
