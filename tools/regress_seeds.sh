#!/bin/sh
# tools/regress_seeds.sh [pattern]: every kept seeded defect is applied to the scratch worktree /tmp/wt0 (at /repo HEAD) and
# the quick check of its property is run against it; prints one line per seed (expected: rc=1 = detected).
WT=/tmp/wt0
[ -d $WT ] || git -C /repo worktree add -q --detach $WT
git -C $WT checkout -q -- . ; git -C $WT checkout -q --detach $(git -C /repo rev-parse HEAD)
for d in /verif/seeded/${1:-*}/; do
  n=$(basename $d)
  p=$(/venv/bin/python -c "import json;print(json.load(open('$d/meta.json'))['property'])")
  if grep -q obsolete_since $d/meta.json; then echo "$n OBSOLETE (superseded by a later fix in /repo)"; continue; fi
  git -C $WT checkout -q -- .
  git -C $WT apply $d/patch.diff 2>/dev/null || { echo "$n NOAPPLY"; continue; }
  t0=$(date +%s)
  out=$(cd /verif && VERIF_REPO=$WT timeout 3000 ./check $p --tier quick --no-evidence 2>/dev/null); rc=$?
  echo "$n $p rc=$rc $(( $(date +%s) - t0 ))s $(echo "$out" | grep -c '^VIOLATION') violations"
done
git -C $WT checkout -q -- .
